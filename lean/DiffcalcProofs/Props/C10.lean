import DiffcalcProofs.Lemmas.ConsCount
import DiffcalcProofs.RealScalar
/-!
# C10 — the constraint set obeys its capacity rules through every history
# C17 (constraint part) — a rejected update changes nothing

Model: `Diffcalc/Model/Cons.lean` (hand, tie H: random histories through the real `Constraints`, state compared after
every operation).  All theorems are for every state / every finite history; the value type is arbitrary except
for the read-back theorems, which are at the real-number reading.
-/
namespace C10

open CState

variable {α : Type}

/-! ## capacity invariant -/

theorem inv_init : (CState.init : CState α).Inv := by
  refine ⟨?_, ?_, ?_⟩ <;> simp [count_init, countCat_init]

theorem inv_upd_none (s : CState α) (n : Name) (h : s.Inv) : (s.upd n none).Inv := by
  obtain ⟨h1, h2, h3⟩ := h
  have a := count_upd s n none
  have b := countCat_upd s n none .det
  have c := countCat_upd s n none .ref
  simp only [Option.isSome_none, Bool.false_and] at a b c
  refine ⟨?_, ?_, ?_⟩ <;>
    (simp only [Bool.false_eq_true, if_false, add_zero] at a b c; split at a <;> split at b <;> split at c <;> omega)

theorem inv_clearCat (s : CState α) (c : Cat) (h : s.Inv) (hk : s.countCat c = 1) :
    (clearCat s c).Inv ∧ ((clearCat s c).countCat c < maxCat c ∧ (clearCat s c).count < 3) := by
  obtain ⟨h1, h2, h3⟩ := h
  have e := count_split (clearCat s c)
  have e0 := count_split s
  have d := countCat_clearCat s c .det
  have r := countCat_clearCat s c .ref
  have sm := countCat_clearCat s c .samp
  cases c <;> simp at d r sm <;> (refine ⟨⟨?_, ?_, ?_⟩, ?_, ?_⟩) <;> (try simp only [maxCat]) <;> omega

theorem inv_activate (s : CState α) (n : Name) (v : Val α) (h : s.Inv)
    (hslot : s.active n = true ∨ (s.countCat n.cat < maxCat n.cat ∧ s.count < 3)) :
    (s.upd n (some v)).Inv := by
  obtain ⟨h1, h2, h3⟩ := h
  have a := count_upd s n (some v)
  have b := countCat_upd s n (some v) .det
  have c := countCat_upd s n (some v) .ref
  simp only [Option.isSome_some, Bool.true_and, if_true] at a b c
  rcases hslot with hact | ⟨hk, hc⟩
  · simp only [hact, if_true, Bool.true_and] at a b c
    exact ⟨by omega, by omega, by omega⟩
  · refine ⟨?_, ?_, ?_⟩
    · split at a <;> omega
    · cases hcat : n.cat <;> simp only [hcat, maxCat] at hk b <;> simp at b <;> (try split at b) <;> omega
    · cases hcat : n.cat <;> simp only [hcat, maxCat] at hk c <;> simp at c <;> (try split at c) <;> omega

variable [Scalar α]

theorem slot_free (s : CState α) (n : Name) (h : s.slot n = .free) :
    s.active n = true ∨ (s.countCat n.cat < maxCat n.cat ∧ s.count < 3) := by
  unfold slot at h
  by_cases ha : s.active n = true
  · exact Or.inl ha
  · right
    simp only [ha, Bool.false_eq_true, if_false] at h
    by_contra hc
    have : (decide (s.countCat n.cat < maxCat n.cat) && decide (s.count < 3)) = false := by
      by_contra h2
      simp only [Bool.not_eq_false, Bool.and_eq_true, decide_eq_true_eq] at h2
      exact hc h2
    simp only [this, Bool.false_eq_true, if_false] at h
    (repeat' split at h) <;> simp at h

theorem slot_replace (s : CState α) (n : Name) (h : s.slot n = .replace) :
    s.active n = false ∧ s.countCat n.cat = 1 ∧ ¬ (s.countCat n.cat < maxCat n.cat ∧ s.count < 3) := by
  unfold slot at h
  by_cases ha : s.active n = true
  · simp [ha] at h
  · simp only [ha, Bool.false_eq_true, if_false] at h
    by_cases hf : (decide (s.countCat n.cat < maxCat n.cat) && decide (s.count < 3)) = true
    · simp [hf] at h
    · simp only [hf, Bool.false_eq_true, if_false] at h
      refine ⟨by simpa using ha, ?_, ?_⟩
      · by_cases h1 : s.countCat n.cat > 1
        · simp [h1] at h
        · by_cases h0 : s.countCat n.cat = 0
          · simp [h1, h0] at h
          · omega
      · intro hc
        apply hf
        simp [hc.1, hc.2]

theorem slot_refuse (s : CState α) (n : Name) (h : s.slot n = .refuse) :
    s.active n = false ∧ s.countCat n.cat ≠ 1 ∧ ¬ (s.countCat n.cat < maxCat n.cat ∧ s.count < 3) := by
  unfold slot at h
  by_cases ha : s.active n = true
  · simp [ha] at h
  · simp only [ha, Bool.false_eq_true, if_false] at h
    by_cases hf : (decide (s.countCat n.cat < maxCat n.cat) && decide (s.count < 3)) = true
    · simp [hf] at h
    · simp only [hf, Bool.false_eq_true, if_false] at h
      refine ⟨by simpa using ha, ?_, ?_⟩
      · by_cases h1 : s.countCat n.cat > 1
        · omega
        · by_cases h0 : s.countCat n.cat = 0
          · omega
          · simp [h1, h0] at h
      · intro hc
        apply hf
        simp [hc.1, hc.2]

theorem set_eq (s : CState α) (n : Name) (a : Arg α) (hn : a ≠ .none) (hf : a ≠ .fals) :
    s.set n a =
      match s.slot n with
      | .refuse => (s, .error .dce)
      | .free =>
        (match setValue n a with | .ok v => (s.upd n (some v), .ok ()) | .error e => (s, .error e))
      | .replace =>
        (match setValue n a with
          | .ok v => ((clearCat s n.cat).upd n (some v), .ok ())
          | .error e => (s, .error e)) := by
  cases a <;> first | contradiction | rfl

/-- the shapes of the result of an assignment of something other than `None` / `False` -/
theorem set_cases (s : CState α) (n : Name) (a : Arg α) (hn : a ≠ .none) (hf : a ≠ .fals) :
    (s.slot n = .refuse ∧ s.set n a = (s, .error .dce)) ∨
    (∃ e, s.slot n ≠ .refuse ∧ setValue n a = .error e ∧ s.set n a = (s, .error e)) ∨
    (∃ v, s.slot n = .free ∧ setValue n a = .ok v ∧ s.set n a = (s.upd n (some v), .ok ())) ∨
    (∃ v, s.slot n = .replace ∧ setValue n a = .ok v ∧ s.set n a = ((clearCat s n.cat).upd n (some v), .ok ())) := by
  rw [set_eq s n a hn hf]
  cases hs : s.slot n with
  | refuse => left; exact ⟨rfl, rfl⟩
  | free =>
    cases hv : setValue n a with
    | error e => right; left; exact ⟨e, by simp, rfl, rfl⟩
    | ok v => right; right; left; exact ⟨v, rfl, rfl, rfl⟩
  | replace =>
    cases hv : setValue n a with
    | error e => right; left; exact ⟨e, by simp, rfl, rfl⟩
    | ok v => right; right; right; exact ⟨v, rfl, rfl, rfl⟩

/-- one assignment keeps the capacity rules, whatever is assigned -/
theorem inv_set (s : CState α) (n : Name) (a : Arg α) (h : s.Inv) : (s.set n a).1.Inv := by
  by_cases hn : a = .none
  · subst hn; exact inv_upd_none s n h
  by_cases hf : a = .fals
  · subst hf; exact inv_upd_none s n h
  rcases set_cases s n a hn hf with ⟨_, e⟩ | ⟨_, _, _, e⟩ | ⟨v, hs, _, e⟩ | ⟨v, hs, _, e⟩ <;> rw [e]
  · exact h
  · exact h
  · exact inv_activate s n v h (slot_free s n hs)
  · obtain ⟨_, hk, _⟩ := slot_replace s n hs
    obtain ⟨hclr, hslot⟩ := inv_clearCat s n.cat h hk
    exact inv_activate (clearCat s n.cat) n v hclr (Or.inr hslot)

theorem inv_bulkLoop (items : List (Item α)) (s s' : CState α) (h : s.Inv)
    (hr : bulkLoop s items = .ok s') : s'.Inv := by
  induction items generalizing s with
  | nil => simp [bulkLoop] at hr; subst hr; exact h
  | cons it rest ih =>
    obtain ⟨on, a⟩ := it
    cases on with
    | none => simp [bulkLoop] at hr
    | some n =>
      simp only [bulkLoop] at hr
      have hi := inv_set s n a h
      split at hr
      · rename_i s1 heq
        rw [heq] at hi
        exact ih s1 hi hr
      · simp at hr

theorem inv_setBulk (s : CState α) (items : List (Item α)) (h : s.Inv) : (s.setBulk items).1.Inv := by
  unfold setBulk
  split
  · rename_i s' heq; exact inv_bulkLoop items _ s' inv_init heq
  · exact h

/-- every operation keeps the capacity rules -/
theorem inv_step (s : CState α) (op : COp α) (h : s.Inv) : (s.step op).1.Inv := by
  cases op with
  | set n a => exact inv_set s n a h
  | del n => exact inv_upd_none s n h
  | clear => exact inv_init
  | bulk items => exact inv_setBulk s items h

/-- **C10, capacity**: after any finite history from the empty set (or from any state that obeys the rules)
    at most three constraints are active, at most one detector and at most one reference constraint -/
theorem inv_history (ops : List (COp α)) (s : CState α) (h : s.Inv) :
    (ops.foldl (fun st op => (st.step op).1) s).Inv := by
  induction ops generalizing s with
  | nil => exact h
  | cons op ops ih => exact ih _ (inv_step s op h)

theorem c10_capacity (ops : List (COp α)) :
    let s := ops.foldl (fun st op => (st.step op).1) (CState.init : CState α)
    s.count ≤ 3 ∧ s.countCat .det ≤ 1 ∧ s.countCat .ref ≤ 1 :=
  inv_history ops _ inv_init

/-! ## a rejected update changes nothing (C17, constraint manager) -/

theorem set_error_unchanged (s : CState α) (n : Name) (a : Arg α) (e : CErr)
    (h : (s.set n a).2 = .error e) : (s.set n a).1 = s := by
  by_cases hn : a = .none
  · subst hn; simp [CState.set] at h
  by_cases hf : a = .fals
  · subst hf; simp [CState.set] at h
  rcases set_cases s n a hn hf with ⟨_, e'⟩ | ⟨_, _, _, e'⟩ | ⟨v, _, _, e'⟩ | ⟨v, _, _, e'⟩ <;> rw [e'] at h ⊢ <;> simp at h ⊢

theorem setBulk_error_unchanged (s : CState α) (items : List (Item α)) (e : CErr)
    (h : (s.setBulk items).2 = .error e) : (s.setBulk items).1 = s := by
  unfold setBulk at h ⊢
  split <;> simp_all

/-- **C17 (constraints)**: whenever an operation of the constraint manager raises, the state is unchanged -/
theorem step_error_unchanged (s : CState α) (op : COp α) (e : CErr)
    (h : (s.step op).2 = .error e) : (s.step op).1 = s := by
  cases op with
  | set n a => exact set_error_unchanged s n a e h
  | del n => simp [CState.step] at h
  | clear => simp [CState.step] at h
  | bulk items => exact setBulk_error_unchanged s items e h

/-! ## deactivation is exact -/

theorem deactivate_exact (s : CState α) (n m : Name) :
    ((s.set n .none).1 m = if m = n then none else s m) ∧
    ((s.set n .fals).1 m = if m = n then none else s m) ∧
    ((s.del n) m = if m = n then none else s m) ∧
    (s.set n .none).2 = .ok () ∧ (s.set n .fals).2 = .ok () := by
  simp [CState.set, CState.del, upd]

/-! ## replacement policy -/

/-- a new constraint with a valid value and no free slot is accepted exactly when its category holds exactly one
    constraint: that one is deactivated, the new value is stored, everything else is kept; with none or with two
    and more of its category it is refused and nothing changes -/
theorem replace_policy (s : CState α) (n : Name) (a : Arg α) (v : Val α)
    (hv : setValue n a = .ok v) (hna : s.active n = false)
    (hfull : ¬ (s.countCat n.cat < maxCat n.cat ∧ s.count < 3)) :
    (s.countCat n.cat = 1 →
        (s.set n a).2 = .ok () ∧ ∀ m, (s.set n a).1 m = if m = n then some v else if m.cat = n.cat then none else s m) ∧
    (s.countCat n.cat ≠ 1 → (s.set n a).2 = .error .dce ∧ (s.set n a).1 = s) := by
  have hn : a ≠ .none := by intro h; subst h; simp [setValue] at hv
  have hf : a ≠ .fals := by intro h; subst h; simp [setValue] at hv
  rcases set_cases s n a hn hf with ⟨hs, e⟩ | ⟨e', _, he, _⟩ | ⟨v', hs, hv', e⟩ | ⟨v', hs, hv', e⟩
  · obtain ⟨_, hk, _⟩ := slot_refuse s n hs
    rw [e]; exact ⟨fun h1 => absurd h1 hk, fun _ => ⟨rfl, rfl⟩⟩
  · rw [hv] at he; cases he
  · rcases slot_free s n hs with h | h
    · rw [hna] at h; cases h
    · exact absurd h hfull
  · obtain ⟨_, hk, _⟩ := slot_replace s n hs
    rw [hv] at hv'; cases hv'
    rw [e]
    refine ⟨fun _ => ⟨rfl, fun m => ?_⟩, fun h1 => absurd hk h1⟩
    simp only [upd, clearCat]

/-- a new constraint with a valid value and a free slot (or re-assignment of an active one) is simply stored -/
theorem accept_free (s : CState α) (n : Name) (a : Arg α) (v : Val α)
    (hv : setValue n a = .ok v)
    (hslot : s.active n = true ∨ (s.countCat n.cat < maxCat n.cat ∧ s.count < 3)) :
    (s.set n a).2 = .ok () ∧ (s.set n a).1 = s.upd n (some v) := by
  have hn : a ≠ .none := by intro h; subst h; simp [setValue] at hv
  have hf : a ≠ .fals := by intro h; subst h; simp [setValue] at hv
  rcases set_cases s n a hn hf with ⟨hs, e⟩ | ⟨e', _, he, _⟩ | ⟨v', hs, hv', e⟩ | ⟨v', hs, hv', e⟩
  · obtain ⟨h1, _, h3⟩ := slot_refuse s n hs
    rcases hslot with h | h
    · rw [h1] at h; cases h
    · exact absurd h h3
  · rw [hv] at he; cases he
  · rw [hv] at hv'; cases hv'; rw [e]; exact ⟨rfl, rfl⟩
  · obtain ⟨h1, _, h3⟩ := slot_replace s n hs
    rcases hslot with h | h
    · rw [h1] at h; cases h
    · exact absurd h h3

/-! ## read-back (real-number reading) -/

/-- whatever is accepted is what `_set_value` validated, stored under the assigned name -/
theorem set_ok_stored (s : CState α) (n : Name) (a : Arg α) (hn : a ≠ .none) (hf : a ≠ .fals)
    (h : (s.set n a).2 = .ok ()) : ∃ v, setValue n a = .ok v ∧ (s.set n a).1 n = some v := by
  rcases set_cases s n a hn hf with ⟨_, e⟩ | ⟨_, _, _, e⟩ | ⟨v, _, hv, e⟩ | ⟨v, _, hv, e⟩ <;> rw [e] at h ⊢
  · simp at h
  · simp at h
  · exact ⟨v, hv, by simp [upd]⟩
  · exact ⟨v, hv, by simp [upd]⟩

/-- **C10, read-back**: an accepted numeric assignment reads back as the assigned value (degrees);
    an accepted `True` reads back as `True` -/
theorem readback_num (s : CState ℝ) (n : Name) (x : ℝ) (h : (s.set n (.num x)).2 = .ok ()) :
    (s.set n (.num x)).1.get n = .num x := by
  obtain ⟨v, hv, hs⟩ := set_ok_stored s n (.num x) (by simp) (by simp) h
  simp only [setValue] at hv
  split at hv
  · cases hv; simp [CState.get, hs]
  · cases hv

theorem readback_true (s : CState ℝ) (n : Name) (h : (s.set n .tru).2 = .ok ()) :
    (s.set n .tru).1.get n = .tru := by
  obtain ⟨v, hv, hs⟩ := set_ok_stored s n .tru (by simp) (by simp) h
  simp only [setValue] at hv
  split at hv
  · cases hv; simp [CState.get, hs]
  · cases hv

/-! ## non-vacuity -/
example : ∃ s : CState ℝ, s.Inv ∧ s.count = 3 ∧ (s.set .nu (.num 5)).2 = .ok () ∧ (s.set .mu .tru).2 = .error .dce := by
  refine ⟨((CState.init.upd .delta (some (.num 1))).upd .alpha (some (.num 2))).upd .mu (some (.num 3)), ?_, ?_, ?_, ?_⟩
  · refine ⟨?_, ?_, ?_⟩ <;> simp [count, countCat, active, upd, init, Name.all, Name.cat]
  · simp [count, active, upd, init, Name.all]
  · simp [CState.set, slot, setValue, active, upd, init, countCat, count, maxCat, Name.all, Name.cat, Name.ty]
  · simp [CState.set, slot, setValue, active, upd, init, countCat, count, maxCat, Name.all, Name.cat, Name.ty]

end C10
