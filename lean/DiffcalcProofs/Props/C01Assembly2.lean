import DiffcalcProofs.Props.C01Assembly
/-!
# C01 — assembling the layer theorems: three sample angles given (12 mode shapes)

`_calc_three_sample`: the fourth sample angle from `__get_last_sample_angle`, qaz from `__get_qaz_value`, the detector angles from
`detFromQaz`.  Every candidate tuple produced by `__calc_hkl_to_position` in such a mode satisfies the forward model exactly.
-/
namespace C01
open M3 Solver Scalar PyOps
noncomputable section

/-- `__get_last_sample_angle` and `__get_qaz_value` see the scattering vector only through its direction -/
theorem lastABC_unit (free : Free) (mu eta chi phi : ℝ) (h : V3 ℝ) (hh : 0 < V3.norm h) (theta : ℝ) :
    lastABC free mu eta chi phi h theta = lastABC free mu eta chi phi (V3.unit h) theta := by
  unfold lastABC
  rw [normalised_eq_unit h hh, normalised_unit (V3.unit h) (V3.norm_unit h hh)]

theorem lastSampleAngle_unit (free : Free) (mu eta chi phi : ℝ) (h : V3 ℝ) (hh : 0 < V3.norm h) (theta : ℝ) :
    lastSampleAngle free mu eta chi phi h theta = lastSampleAngle free mu eta chi phi (V3.unit h) theta := by
  unfold lastSampleAngle
  rw [lastABC_unit free mu eta chi phi h hh theta]

theorem qazValue_unit (mu eta chi phi : ℝ) (h : V3 ℝ) (hh : 0 < V3.norm h) (theta : ℝ) :
    qazValue mu eta chi phi h theta = qazValue mu eta chi phi (V3.unit h) theta := by
  unfold qazValue
  rw [normalised_eq_unit h hh, normalised_unit (V3.unit h) (V3.norm_unit h hh)]

/-- every candidate of `_calc_three_sample` carries the three given angles and one of the values returned for the free axis -/
theorem threeSample_mem (free : Free) (mu eta chi phi : ℝ) (h : V3 ℝ) (theta : ℝ) (l : List (Sol ℝ))
    (hl : threeSample free mu eta chi phi h theta = .ok l) (hne : l ≠ []) :
    ∃ vals, lastSampleAngle free mu eta chi phi h theta = .ok vals ∧
      ∀ s ∈ l, ∃ v ∈ vals, (s.1, s.2.2.2.1, s.2.2.2.2.1, s.2.2.2.2.2) = assign free mu eta chi phi v := by
  unfold threeSample tryAssert at hl
  split at hl
  · cases hl; exact absurd rfl hne
  · cases hl
  · rename_i vals hv
    simp only [Except.ok.injEq] at hl
    subst hl
    refine ⟨vals, hv, ?_⟩
    intro s hs
    obtain ⟨v, hvm, hv'⟩ := List.mem_flatMap.mp hs
    refine ⟨v, hvm, ?_⟩
    cases free <;> simp only [] at hv' <;>
      (obtain ⟨d, _, rfl⟩ := List.mem_map.mp hv'
       rfl)

/-- **three sample angles given, end to end**: all 12 mode shapes (free axis × which three are given) -/
theorem samp3_exact (ub : UBIn ℝ) (U : M3 ℝ) (hU : IsRot U) (hUB : ub.UB = M3.mul U ub.B) (hB : M3.det ub.B ≠ 0)
    (free : Free) (mu eta chi phi : ℝ) (hkl : V3 ℝ) (wl : ℝ) (hwl : 0 < wl)
    (hne : 0 < V3.norm (M3.mulVec ub.B hkl))
    (hreach : wl * V3.norm (M3.mulVec ub.B hkl) / (4 * Real.pi) ≤ 1)
    (hct : Scalar.isSmall (Real.cos (Real.arcsin (wl * V3.norm (M3.mulVec ub.B hkl) / (4 * Real.pi)))) = false)
    (hclip : let abc := lastABC free mu eta chi phi (M3.mulVec ub.UB hkl) (Real.arcsin (wl * V3.norm (M3.mulVec ub.B hkl) / (4 * Real.pi)))
      |abc.2.2 / Scalar.hypot abc.1 abc.2.1| ≤ 1 ∧ Scalar.isSmall (Real.arccos (abc.2.2 / Scalar.hypot abc.1 abc.2.1)) = false)
    (l : List (Sol ℝ)) (h : candidates ub (.samp3 free mu eta chi phi) hkl wl = .ok l) :
    ∀ sol ∈ l, Scalar.isSmall (Real.cos sol.2.1) = false →
      C04.fwd ub.UB sol.1 sol.2.1 sol.2.2.1 sol.2.2.2.1 sol.2.2.2.2.1 sol.2.2.2.2.2 wl = hkl := by
  set theta := Real.arcsin (wl * V3.norm (M3.mulVec ub.B hkl) / (4 * Real.pi)) with hth
  have hpi := Real.pi_pos
  have hnUB : V3.norm (M3.mulVec ub.UB hkl) = V3.norm (M3.mulVec ub.B hkl) := by rw [hUB]; exact norm_UB U ub.B hU hkl
  have hnUBpos : 0 < V3.norm (M3.mulVec ub.UB hkl) := by rw [hnUB]; exact hne
  have hdetUB : M3.det ub.UB ≠ 0 := by rw [hUB, M3.det_mul, hU.2, one_mul]; exact hB
  unfold candidates at h
  rw [ttheta_eq ub.B hB hkl wl hwl hne hreach] at h
  simp only [bind, Except.bind, rs_two] at h
  have hhalf : 2 * theta / 2 = theta := by ring
  rw [hhalf] at h
  intro sol hsol hcd
  have hlne : l ≠ [] := by intro e; rw [e] at hsol; cases hsol
  set hphi := M3.mulVec ub.UB hkl with hphidef
  obtain ⟨vals, hvals, hmem⟩ := threeSample_mem free mu eta chi phi hphi theta l h hlne
  obtain ⟨v, hv, htuple⟩ := hmem sol hsol
  have hD := threeSample_detector_sound free mu eta chi phi hphi theta l h sol hsol hcd
  rw [qazValue_unit _ _ _ _ hphi hnUBpos theta] at hD
  -- the sample relation on the unit vector
  rw [lastSampleAngle_unit free mu eta chi phi hphi hnUBpos theta] at hvals
  simp only [] at hclip
  rw [lastABC_unit free mu eta chi phi hphi hnUBpos theta] at hclip
  have hS := threeSample_sample_sound free mu eta chi phi (V3.unit hphi) (V3.norm_unit hphi hnUBpos) theta hct hclip.1 hclip.2 vals hvals v hv
  simp only [] at hS
  rw [← htuple] at hS
  unfold SampleSpec at hS
  simp only [] at hS
  apply composition ub.UB hdetUB _ _ _ _ _ _ _ theta wl hkl hD
  have hu : hphi = V3.smul (V3.norm hphi) (V3.unit hphi) := by
    rw [V3.unit_eq_smul _ hnUBpos]; ext <;> simp only [V3.smul] <;> field_simp
  rw [← hphidef]
  conv_lhs => rw [hu]
  rw [M3.mulVec_smul, hS, hnUB]
  congr 1
  rw [hth, Real.sin_arcsin (by have : 0 ≤ wl * V3.norm (M3.mulVec ub.B hkl) / (4 * Real.pi) := by positivity
                               linarith) hreach]
  field_simp; ring

/-! ## reference constraint + two sample angles (`_calc_two_sample_and_reference`) -/

/-- the orientation equation `Z·V = F(qaz)` of the reference modes contains the sample relation: its first column is `Z·N e₀ = q̂(θ, qaz)` -/
theorem refSpec_sampleSpec (psi theta : ℝ) (N : M3 ℝ) (r : RTuple ℝ) (h : RefSpec (Vref psi theta N) r) :
    SampleSpec ⟨N.a00, N.a10, N.a20⟩ theta r.1 (r.2.2.1, r.2.2.2.1, r.2.2.2.2.1, r.2.2.2.2.2) := by
  unfold RefSpec at h
  unfold SampleSpec
  simp only []
  have hc : (⟨N.a00, N.a10, N.a20⟩ : V3 ℝ) = M3.mulVec (Vref psi theta N) ⟨Real.cos theta, -Real.sin theta, 0⟩ := by
    have hsc := Real.sin_sq_add_cos_sq theta
    ext <;> simp only [Vref, M3.mul, M3.mulVec, M3.transpose, Gen.x_rotation, Gen.z_rotation, rs_ofNat, rs_cos, rs_sin,
      Real.cos_neg, Real.sin_neg, Nat.cast_zero, Nat.cast_one]
    · linear_combination (-N.a00) * hsc
    · linear_combination (-N.a10) * hsc
    · linear_combination (-N.a20) * hsc
  rw [hc, ← M3.mulVec_mul, h]
  ext <;> simp only [Fq, M3.mulVec, qDir] <;> ring

/-- every candidate of `_calc_two_sample_and_reference` satisfies the detector relation and the sample relation at one common qaz -/
theorem twoSampleAndReference_sound (s : Samp2Ref ℝ) (h n : V3 ℝ) (theta psi : ℝ) (hh : 0 < V3.norm h) (hn : 0 < V3.norm n)
    (hx : (1e-7 : ℝ) < V3.norm (V3.cross (V3.unit h) (V3.unit n)))
    (hgen : ∀ N, calcN h n = .ok N → Samp2RefGeneric s psi theta N) :
    AllOk (fun sol : Sol ℝ => Scalar.isSmall (Real.cos sol.2.1) = false →
        ∃ qaz, DetSpec sol.2.1 sol.2.2.1 qaz theta ∧
          M3.mulVec (C04.Z sol.1 sol.2.2.2.1 sol.2.2.2.2.1 sol.2.2.2.2.2) (V3.unit h) = qDir theta qaz)
      (twoSampleAndReference s h n theta psi) := by
  unfold twoSampleAndReference
  apply allOk_bind
  intro N hN
  obtain ⟨hNrot, hNcol⟩ := calcN_generic h n N hh hn hx hN
  apply allOk_bind
  intro rs hrs
  apply allOk_ok
  intro sol hs hcd
  obtain ⟨r, hr, hv⟩ := List.mem_flatMap.mp hs
  have hR := twoSampleReference_sound s psi theta N hNrot (hgen N hN) rs hrs r hr
  have hS := refSpec_sampleSpec psi theta N r hR
  obtain ⟨qaz, ps, mu, eta, chi, phi⟩ := r
  simp only [] at hv
  obtain ⟨d, hd, rfl⟩ := List.mem_map.mp hv
  have h1 := detFromQaz_sound qaz theta d hd hcd
  rw [detFromQaz_qaz qaz theta d hd] at h1
  refine ⟨qaz, h1, ?_⟩
  unfold SampleSpec at hS
  simp only [] at hS
  rw [← hNcol]; exact hS

/-- **reference constraint + two sample angles, end to end**: all 42 mode shapes (7 reference constraints × 6 sample pairs) -/
theorem refSamp2_exact (ub : UBIn ℝ) (U : M3 ℝ) (hU : IsRot U) (hUB : ub.UB = M3.mul U ub.B) (hB : M3.det ub.B ≠ 0)
    (ref : RefCon ℝ) (s : Samp2Ref ℝ) (hkl : V3 ℝ) (wl : ℝ) (hwl : 0 < wl)
    (hne : 0 < V3.norm (M3.mulVec ub.B hkl))
    (hreach : wl * V3.norm (M3.mulVec ub.B hkl) / (4 * Real.pi) ≤ 1)
    (hvec : ∀ n alpha tau, nphiAlphaTau ub ref (M3.mulVec ub.UB hkl) (Real.arcsin (wl * V3.norm (M3.mulVec ub.B hkl) / (4 * Real.pi))) = .ok (n, alpha, tau) →
      0 < V3.norm n ∧ (1e-7 : ℝ) < V3.norm (V3.cross (V3.unit (M3.mulVec ub.UB hkl)) (V3.unit n)) ∧
      ∀ N psi, calcN (M3.mulVec ub.UB hkl) n = .ok N →
        some psi ∈ (match ref with
          | .psi v => [some v]
          | _ => calcPsi alpha (Real.arcsin (wl * V3.norm (M3.mulVec ub.B hkl) / (4 * Real.pi))) tau none) →
        Samp2RefGeneric s psi (Real.arcsin (wl * V3.norm (M3.mulVec ub.B hkl) / (4 * Real.pi))) N) :
    AllOk (fun sol : Sol ℝ => Scalar.isSmall (Real.cos sol.2.1) = false →
        C04.fwd ub.UB sol.1 sol.2.1 sol.2.2.1 sol.2.2.2.1 sol.2.2.2.2.1 sol.2.2.2.2.2 wl = hkl)
      (candidates ub (.refSamp2 ref s) hkl wl) := by
  set theta := Real.arcsin (wl * V3.norm (M3.mulVec ub.B hkl) / (4 * Real.pi)) with hth
  have hpi := Real.pi_pos
  have hnUB : V3.norm (M3.mulVec ub.UB hkl) = V3.norm (M3.mulVec ub.B hkl) := by rw [hUB]; exact norm_UB U ub.B hU hkl
  have hnUBpos : 0 < V3.norm (M3.mulVec ub.UB hkl) := by rw [hnUB]; exact hne
  have hdetUB : M3.det ub.UB ≠ 0 := by rw [hUB, M3.det_mul, hU.2, one_mul]; exact hB
  unfold candidates
  rw [ttheta_eq ub.B hB hkl wl hwl hne hreach]
  simp only [bind, Except.bind, rs_two]
  have hhalf : 2 * theta / 2 = theta := by ring
  rw [hhalf]
  set hphi := M3.mulVec ub.UB hkl with hphidef
  -- lifting the layer statement to the forward model
  have lift : ∀ sol : Sol ℝ, (Scalar.isSmall (Real.cos sol.2.1) = false →
        ∃ qaz, DetSpec sol.2.1 sol.2.2.1 qaz theta ∧
          M3.mulVec (C04.Z sol.1 sol.2.2.2.1 sol.2.2.2.2.1 sol.2.2.2.2.2) (V3.unit hphi) = qDir theta qaz) →
      Scalar.isSmall (Real.cos sol.2.1) = false →
      C04.fwd ub.UB sol.1 sol.2.1 sol.2.2.1 sol.2.2.2.1 sol.2.2.2.2.1 sol.2.2.2.2.2 wl = hkl := by
    intro sol hsol hcd
    obtain ⟨qaz, hD, hS⟩ := hsol hcd
    apply composition ub.UB hdetUB _ _ _ _ _ _ qaz theta wl hkl hD
    have hu : hphi = V3.smul (V3.norm hphi) (V3.unit hphi) := by
      rw [V3.unit_eq_smul _ hnUBpos]; ext <;> simp only [V3.smul] <;> field_simp
    rw [← hphidef]
    conv_lhs => rw [hu]
    rw [M3.mulVec_smul, hS, hnUB]
    congr 1
    rw [hth, Real.sin_arcsin (by have : 0 ≤ wl * V3.norm (M3.mulVec ub.B hkl) / (4 * Real.pi) := by positivity
                                 linarith) hreach]
    field_simp; ring
  cases hnat : nphiAlphaTau ub ref hphi theta with
  | error e => exact allOk_error e
  | ok nat =>
    obtain ⟨n, alpha, tau⟩ := nat
    obtain ⟨hn, hx, hgen⟩ := hvec n alpha tau hnat
    simp only []
    apply allOk_forM'
    intro psi hpsi
    cases psi with
    | none => exact allOk_nil
    | some p =>
      simp only []
      exact allOk_mono (twoSampleAndReference_sound s hphi n theta p hnUBpos hn hx (fun N hN => hgen N p hN (by cases ref <;> exact hpsi))) lift

/-! ## detector (or naz) + reference + one sample angle (`_calc_det_sample_reference`, single-sample branch) -/

/-- every `(qaz, naz, delta, nu)` delivered by `_calc_detector_con_det_or_naz` satisfies the detector relation at its own qaz -/
theorem detOrNaz_sound (det : Option (DetCon ℝ)) (naz : Option ℝ) (theta : ℝ) (tau : Option ℝ) (alpha : ℝ)
    (hgen : ∀ d, det = some d → DetGeneric d theta) :
    AllOk (fun t : ℝ × Option ℝ × ℝ × ℝ => Scalar.isSmall (Real.cos t.2.2.1) = false → Scalar.isSmall (Real.sin t.2.2.1) = false →
        Scalar.isSmall (Real.sin t.2.2.2) = false → Scalar.isSmall (Real.sin t.1) = false → DetSpec t.2.2.1 t.2.2.2 t.1 theta)
      (detOrNaz det naz theta tau alpha) := by
  unfold detOrNaz
  split
  · exact allOk_error _
  · apply allOk_tryAssert
    intro nq _
    cases det with
    | some d =>
      simp only []
      apply allOk_bind
      intro trip htrip
      apply allOk_ok
      intro t ht h1 h2 h3 h4
      obtain ⟨tr, htr, hmem⟩ := List.mem_flatMap.mp ht
      obtain ⟨dl, n2, qz⟩ := tr
      simp only [] at hmem
      obtain ⟨nzz, _, rfl⟩ := List.mem_map.mp hmem
      exact detRemaining_sound d theta (hgen d rfl) trip htrip (dl, n2, qz) htr h1 h2 h3 h4
    | none =>
      simp only []
      cases naz with
      | none => exact allOk_nil
      | some nazv =>
        simp only []
        apply allOk_ok
        intro t ht h1 _ _ _
        obtain ⟨qz, _, hmem⟩ := List.mem_flatMap.mp ht
        obtain ⟨d, hd, rfl⟩ := List.mem_map.mp hmem
        have := detFromQaz_sound qz theta d hd h1
        rw [detFromQaz_qaz qz theta d hd] at this
        exact this

theorem norm_qDir (theta qaz : ℝ) : V3.norm (qDir theta qaz) = 1 := by
  have h := qDir_unit theta qaz
  unfold V3.norm V3.normSq V3.dot
  simp only [rs_sqrt]
  rw [show (qDir theta qaz).x * (qDir theta qaz).x + (qDir theta qaz).y * (qDir theta qaz).y + (qDir theta qaz).z * (qDir theta qaz).z = 1 by
    linear_combination h]
  exact Real.sqrt_one

/-- the laboratory-frame reference direction used by `_calc_remaining_sample_angles` -/
def nLab (alpha : ℝ) (nazv : Option ℝ) : V3 ℝ :=
  match nazv with
  | none => ⟨0, -(Real.sin alpha), 0⟩
  | some nz => ⟨Real.cos alpha * Real.sin nz, -(Real.sin alpha), Real.cos alpha * Real.cos nz⟩

/-- **detector (or naz) + reference + one sample angle, end to end**: every candidate tuple satisfies the forward model exactly.
    Side conditions (all on values the solver itself computes): the reflection is reachable, the reference vector in use is not within
    1e-7 of the scattering vector in either frame, the detector layer is on its generic branch for the tuple at hand (`DetGeneric`, no
    small sine/cosine of the produced angles), and the single-sample branch is on its generic branch (`Samp1Generic`). -/
theorem detRefSamp_exact (ub : UBIn ℝ) (U : M3 ℝ) (hU : IsRot U) (hUB : ub.UB = M3.mul U ub.B) (hB : M3.det ub.B ≠ 0)
    (det : Option (DetCon ℝ)) (naz : Option ℝ) (ref : RefCon ℝ) (s : Samp1 ℝ) (hkl : V3 ℝ) (wl : ℝ) (hwl : 0 < wl)
    (hne : 0 < V3.norm (M3.mulVec ub.B hkl))
    (hreach : wl * V3.norm (M3.mulVec ub.B hkl) / (4 * Real.pi) ≤ 1)
    (hdgen : ∀ d, det = some d → DetGeneric d (Real.arcsin (wl * V3.norm (M3.mulVec ub.B hkl) / (4 * Real.pi))))
    (hvec : ∀ n alpha tau, nphiAlphaTau ub ref (M3.mulVec ub.UB hkl) (Real.arcsin (wl * V3.norm (M3.mulVec ub.B hkl) / (4 * Real.pi))) = .ok (n, alpha, tau) →
      0 < V3.norm n ∧ (1e-7 : ℝ) < V3.norm (V3.cross (V3.unit (M3.mulVec ub.UB hkl)) (V3.unit n)) ∧
      ∀ N_phi ds, calcN (M3.mulVec ub.UB hkl) n = .ok N_phi →
        detOrNaz det naz (Real.arcsin (wl * V3.norm (M3.mulVec ub.B hkl) / (4 * Real.pi))) (some tau) alpha = .ok ds →
        ∀ t ∈ ds, Scalar.isSmall (Real.sin t.1) = false ∧ 0 < V3.norm (nLab alpha t.2.1) ∧
          (1e-7 : ℝ) < V3.norm (V3.cross (qDir (Real.arcsin (wl * V3.norm (M3.mulVec ub.B hkl) / (4 * Real.pi))) t.1) (V3.unit (nLab alpha t.2.1))) ∧
          ∀ N_lab, calcN (qDir (Real.arcsin (wl * V3.norm (M3.mulVec ub.B hkl) / (4 * Real.pi))) t.1) (nLab alpha t.2.1) = .ok N_lab →
            Samp1Generic s N_lab N_phi) :
    AllOk (fun sol : Sol ℝ => Scalar.isSmall (Real.cos sol.2.1) = false → Scalar.isSmall (Real.sin sol.2.1) = false →
        Scalar.isSmall (Real.sin sol.2.2.1) = false →
        C04.fwd ub.UB sol.1 sol.2.1 sol.2.2.1 sol.2.2.2.1 sol.2.2.2.2.1 sol.2.2.2.2.2 wl = hkl)
      (candidates ub (.detRefSamp det naz ref s) hkl wl) := by
  set theta := Real.arcsin (wl * V3.norm (M3.mulVec ub.B hkl) / (4 * Real.pi)) with hth
  have hpi := Real.pi_pos
  have hnUB : V3.norm (M3.mulVec ub.UB hkl) = V3.norm (M3.mulVec ub.B hkl) := by rw [hUB]; exact norm_UB U ub.B hU hkl
  have hnUBpos : 0 < V3.norm (M3.mulVec ub.UB hkl) := by rw [hnUB]; exact hne
  have hdetUB : M3.det ub.UB ≠ 0 := by rw [hUB, M3.det_mul, hU.2, one_mul]; exact hB
  unfold candidates
  rw [ttheta_eq ub.B hB hkl wl hwl hne hreach]
  simp only [bind, Except.bind, rs_two]
  have hhalf : 2 * theta / 2 = theta := by ring
  rw [hhalf]
  set hphi := M3.mulVec ub.UB hkl with hphidef
  cases hnat : nphiAlphaTau ub ref hphi theta with
  | error e => exact allOk_error e
  | ok nat =>
    obtain ⟨n, alpha, tau⟩ := nat
    obtain ⟨hn, hx, hlab⟩ := hvec n alpha tau hnat
    simp only []
    unfold detSampleReference
    apply allOk_bind
    intro N hN
    obtain ⟨hNrot, hNcol⟩ := calcN_generic hphi n N hnUBpos hn hx hN
    simp only []
    apply allOk_bind
    intro ds hds
    apply allOk_forM'
    intro d hd
    obtain ⟨hq, hnl, hxl, hs1⟩ := hlab N ds hN hds d hd
    obtain ⟨qaz, nazv, delta, nu⟩ := d
    simp only [] at hq hnl hxl hs1 ⊢
    apply allOk_bind
    intro ss hss
    apply allOk_ok
    intro sol hsol hcd hsd hsn
    obtain ⟨st, hst, rfl⟩ := List.mem_map.mp hsol
    obtain ⟨mu, eta, chi, phi⟩ := st
    (try simp only [] at hcd hsd hsn ⊢)
    have hD : DetSpec delta nu qaz theta :=
      detOrNaz_sound det naz theta (some tau) alpha hdgen ds hds (qaz, nazv, delta, nu) hd hcd hsd hsn hq
    have hlabN : ∀ N_lab, calcN (⟨Real.cos theta * Real.sin qaz, -(Real.sin theta), Real.cos theta * Real.cos qaz⟩ : V3 ℝ)
        (match nazv with
          | none => (⟨0, -(Real.sin alpha), 0⟩ : V3 ℝ)
          | some nz => ⟨Real.cos alpha * Real.sin nz, -(Real.sin alpha), Real.cos alpha * Real.cos nz⟩) = .ok N_lab →
        IsRot N_lab ∧ (⟨N_lab.a00, N_lab.a10, N_lab.a20⟩ : V3 ℝ) = qDir theta qaz ∧ Samp1Generic s N_lab N := by
      intro N_lab hNl
      have hNl' : calcN (qDir theta qaz) (nLab alpha nazv) = .ok N_lab := by
        rw [← hNl]; unfold qDir nLab; cases nazv <;> rfl
      have hq1 := norm_qDir theta qaz
      have hxl' : (1e-7 : ℝ) < V3.norm (V3.cross (V3.unit (qDir theta qaz)) (V3.unit (nLab alpha nazv))) := by
        rw [unit_of_norm_one _ hq1]; exact hxl
      obtain ⟨hr, hc⟩ := calcN_generic (qDir theta qaz) (nLab alpha nazv) N_lab (by rw [hq1]; norm_num) hnl hxl' hNl'
      exact ⟨hr, by rw [hc, unit_of_norm_one _ hq1], hs1 N_lab hNl'⟩
    have hS := remainingSample_sound s theta alpha qaz nazv N hNrot hlabN ss hss (mu, eta, chi, phi) hst
    unfold SampleSpec at hS
    simp only [] at hS
    apply composition ub.UB hdetUB _ _ _ _ _ _ qaz theta wl hkl hD
    have hu : hphi = V3.smul (V3.norm hphi) (V3.unit hphi) := by
      rw [V3.unit_eq_smul _ hnUBpos]; ext <;> simp only [V3.smul] <;> field_simp
    rw [← hphidef]
    conv_lhs => rw [hu]
    rw [M3.mulVec_smul, ← hNcol, hS, hnUB]
    congr 1
    rw [hth, Real.sin_arcsin (by have : 0 ≤ wl * V3.norm (M3.mulVec ub.B hkl) / (4 * Real.pi) := by positivity
                                 linarith) hreach]
    field_simp; ring

end
end C01
