import DiffcalcProofs.Props.C03Sample4
/-!
# C03 — completeness of `__calc_sample_con_eta_bisect` (omega free)
-/
namespace C03
open M3 Solver Scalar PyOps C01
noncomputable section

/-- **completeness of `__calc_sample_con_eta_bisect`**: a position with the constrained eta that satisfies the sample relation and the bisect
    relation for SOME value of θ+ω is returned modulo 2π (generic branch: `sin qaz` not small, `cos μ₀ ≠ 0`, θ+ω not within 1e-8 of ±90°) -/
theorem etaBisect_complete (eta qaz theta : ℝ) (N : M3 ℝ) (hN : N.a00 ^ 2 + N.a10 ^ 2 + N.a20 ^ 2 = 1)
    (mu0 chi0 phi0 thomega0 : ℝ) (hS : SampleSpec ⟨N.a00, N.a10, N.a20⟩ theta qaz (mu0, eta, chi0, phi0))
    (hBm : Real.tan mu0 = Real.tan thomega0 * Real.cos qaz) (hBe : Real.sin eta = Real.sin thomega0 * Real.sin qaz)
    (hcm : Real.cos mu0 ≠ 0) (hsq : Scalar.isSmall (Real.sin qaz) = false)
    (hgen : Scalar.isSmall (|Real.arcsin (Real.sin eta / Real.sin qaz)| - Real.pi / 2) = false)
    (hsm : (Scalar.isSmall N.a00 && Scalar.isSmall N.a10) = false)
    (hreg : (outerInv mu0 eta (qDir theta qaz)).x ^ 2 + (outerInv mu0 eta (qDir theta qaz)).z ^ 2 ≠ 0) :
    ∃ l, sampleConEtaBisect eta qaz theta N = .ok l ∧
      ∃ t ∈ l, SameAngle t.1 mu0 ∧ t.2.1 = eta ∧ SameAngle t.2.2.1 chi0 ∧ SameAngle t.2.2.2 phi0 := by
  have hsne : Real.sin qaz ≠ 0 := C01.not_small_ne_zero hsq
  have hst : Real.sin thomega0 = Real.sin eta / Real.sin qaz := by rw [hBe]; field_simp
  have hclip : |Real.sin eta / Real.sin qaz| ≤ 1 := by rw [← hst]; exact Real.abs_sin_le_one _
  unfold sampleConEtaBisect
  simp only [rs_tan, rs_cos, rs_sin, rs_atan, rs_pi, rs_two, rs_abs, hsq, Bool.false_eq_true, if_false]
  obtain ⟨a, ha⟩ := C11.boundAsin_ok hclip
  obtain ⟨rfl, _⟩ := C01.boundAsin_ok hclip ha
  unfold tryAssert
  rw [ha]
  simp only [hgen, Bool.false_eq_true, if_false]
  set a := Real.arcsin (Real.sin eta / Real.sin qaz) with hadef
  -- thomega0 is one of the two asin roots; tan(thomega0) = tan(th)
  obtain ⟨th, hth, hthS⟩ : ∃ th, th ∈ [a, Real.pi - a] ∧ SameAngle th thomega0 := by
    rcases asin_roots_complete thomega0 (Real.sin eta / Real.sin qaz) hclip hst with h | h
    · exact ⟨a, List.mem_cons.mpr (Or.inl rfl), sameAngle_symm h⟩
    · exact ⟨Real.pi - a, List.mem_cons.mpr (Or.inr (List.mem_cons.mpr (Or.inl rfl))), sameAngle_symm h⟩
  have htan : Real.tan th = Real.tan thomega0 := by
    rw [Real.tan_eq_sin_div_cos, Real.tan_eq_sin_div_cos, hthS.1, hthS.2]
  obtain ⟨m, hm, hmS⟩ : ∃ m, m ∈ [Real.arctan (Real.tan th * Real.cos qaz), Real.pi + Real.arctan (Real.tan th * Real.cos qaz)] ∧ SameAngle m mu0 := by
    rcases atan_roots_complete mu0 (Real.tan th * Real.cos qaz) hcm (by rw [htan]; exact hBm) with h | h
    · exact ⟨_, List.mem_cons.mpr (Or.inl rfl), sameAngle_symm h⟩
    · exact ⟨Real.pi + Real.arctan (Real.tan th * Real.cos qaz), List.mem_cons.mpr (Or.inr (List.mem_cons.mpr (Or.inl rfl))), by rw [add_comm]; exact sameAngle_symm h⟩
  set mvals := [a, Real.pi - a].flatMap fun thomega => [Real.arctan (Real.tan thomega * Real.cos qaz), Real.pi + Real.arctan (Real.tan thomega * Real.cos qaz)] with hmvals
  have hmem_m : m ∈ mvals := List.mem_flatMap.mpr ⟨th, hth, hm⟩
  obtain ⟨l, hl, hmem⟩ := forM'_complete mvals (fun m => sampleConMuEta m eta qaz theta N) (fun m _ => sampleConMuEta_total m eta qaz theta N hsm)
  refine ⟨l, hl, ?_⟩
  have hS' : SampleSpec ⟨N.a00, N.a10, N.a20⟩ theta qaz (m, eta, chi0, phi0) := by
    unfold SampleSpec at hS ⊢
    simp only [] at hS ⊢
    rw [Z_congr m mu0 eta eta chi0 phi0 hmS ⟨rfl, rfl⟩]; exact hS
  have hreg' : (outerInv m eta (qDir theta qaz)).x ^ 2 + (outerInv m eta (qDir theta qaz)).z ^ 2 ≠ 0 := by
    rw [outerInv_comps] at hreg ⊢
    simp only [] at hreg ⊢
    rw [hmS.1, hmS.2]; exact hreg
  obtain ⟨lx, hlx, t, ht, h1, h2, h3, h4⟩ := sampleConMuEta_complete m eta qaz theta N hN chi0 phi0 hS' hsm hreg'
  exact ⟨t, hmem m hmem_m lx hlx t ht, by rw [h1]; exact hmS, h2, h3, h4⟩
end
end C03
