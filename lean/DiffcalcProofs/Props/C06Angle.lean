import DiffcalcProofs.Props.C06
import DiffcalcProofs.Props.C05Geo
import Diffcalc.Model.PlaneAngle
/-!
# C06 — interplanar angles are those of crystallography

`get_hkl_plane_angle(h₁, h₂) = acos( h₁ᵀ G* h₂ / √(h₁ᵀ G* h₁ · h₂ᵀ G* h₂) )` in degrees, where `G* = BᵀB / 4π²` is the reciprocal metric
tensor, i.e. the inverse of the direct metric tensor `G` of `(a, b, c, α, β, γ)` (`Gstar_G`, from `BtB_G`).
-/
namespace C06
open M3 Scalar PyOps
noncomputable section

/-- the reciprocal metric tensor of the cell, as the code holds it: `BᵀB / 4π²` -/
def Cell.Gstar (k : Cell) : M3 ℝ := M3.smul (1 / (4 * Real.pi ^ 2)) (M3.mul (M3.transpose k.B) k.B)

theorem smul_mul (c : ℝ) (a b : M3 ℝ) : M3.mul (M3.smul c a) b = M3.smul c (M3.mul a b) := by
  ext <;> simp only [M3.mul, M3.smul] <;> ring

/-- `G* · G = 1`: the tensor used below IS the inverse of the direct metric tensor -/
theorem Cell.Gstar_G (k : Cell) : M3.mul k.Gstar k.G = M3.id := by
  unfold Cell.Gstar
  rw [smul_mul, k.BtB_G]
  have hpi : (4 * Real.pi ^ 2) ≠ 0 := by positivity
  ext <;> simp only [M3.smul, M3.id, rs_one, rs_zero] <;> field_simp

/-- the bilinear form `uᵀ M v` -/
def quad (M : M3 ℝ) (u v : V3 ℝ) : ℝ := V3.dot u (M3.mulVec M v)

theorem dot_B_B (k : Cell) (u v : V3 ℝ) : V3.dot (M3.mulVec k.B u) (M3.mulVec k.B v) = 4 * Real.pi ^ 2 * quad k.Gstar u v := by
  have hpi : (4 * Real.pi ^ 2) ≠ 0 := by positivity
  unfold quad Cell.Gstar
  simp only [V3.dot, M3.mulVec, M3.mul, M3.transpose, M3.smul]
  field_simp
  ring

theorem norm_B (k : Cell) (u : V3 ℝ) : V3.norm (M3.mulVec k.B u) = 2 * Real.pi * Real.sqrt (quad k.Gstar u u) := by
  have hpi := Real.pi_pos
  unfold V3.norm V3.normSq
  simp only [rs_sqrt]
  rw [dot_B_B, show (4 : ℝ) * Real.pi ^ 2 = (2 * Real.pi) ^ 2 by ring, Real.sqrt_mul (by positivity), Real.sqrt_sq (by positivity)]

/-- **C06, interplanar angle**: for planes with non-zero reciprocal vectors the angle returned is the crystallographic one -/
theorem planeAngle_crystallographic (k : Cell) (h1 h2 : V3 ℝ)
    (hn1 : 0 < V3.norm (M3.mulVec k.B h1)) (hn2 : 0 < V3.norm (M3.mulVec k.B h2)) :
    CrystalModel.planeAngle k.B h1 h2 =
      .ok (Scalar.toDeg (Real.arccos (quad k.Gstar h1 h2 / (Real.sqrt (quad k.Gstar h1 h1) * Real.sqrt (quad k.Gstar h2 h2))))) := by
  have hpi := Real.pi_pos
  unfold CrystalModel.planeAngle
  rw [C05.angleBetween_eq]
  congr 3
  have hds : ∀ (s t : ℝ) (a b : V3 ℝ), V3.dot (V3.smul s a) (V3.smul t b) = s * t * V3.dot a b := by
    intro s t a b; simp only [V3.dot, V3.smul]; ring
  rw [hds, dot_B_B]
  rw [norm_B] at hn1 hn2 ⊢
  rw [norm_B]
  have h1' : Real.sqrt (quad k.Gstar h1 h1) ≠ 0 := by intro h; rw [h] at hn1; simp at hn1
  have h2' : Real.sqrt (quad k.Gstar h2 h2) ≠ 0 := by intro h; rw [h] at hn2; simp at hn2
  field_simp
  ring
end
end C06
