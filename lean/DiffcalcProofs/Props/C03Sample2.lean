import DiffcalcProofs.Props.C03Sample
/-!
# C03 — completeness of the sample layer, continued: detector + reference + `mu` given (`__calc_sample_con_mu`)

With the full orientation equation `Z(mu, η, χ, φ)·N_phi = N_lab` the three remaining angles are ZYZ Euler angles of
`V = MUᵀ·N_lab·N_phiᵀ`; both χ roots are produced, and η, φ are then fixed.
-/
namespace C03
open M3 Solver Scalar PyOps C01
noncomputable section

theorem sameAngle_atan2 (y x r a : ℝ) (hr : 0 < r) (hy : y = r * Real.sin a) (hx : x = r * Real.cos a) : SameAngle (atan2R y x) a := by
  have hq : x ^ 2 + y ^ 2 = r ^ 2 := by
    have := Real.sin_sq_add_cos_sq a; rw [hx, hy]; linear_combination (r ^ 2) * this
  obtain ⟨hc, hs⟩ := atan2_cs x y r hr hq
  have hrne := hr.ne'
  exact ⟨by rw [hs, hy]; field_simp, by rw [hc, hx]; field_simp⟩

/-- **completeness of `__calc_sample_con_mu`** (generic branch: `sin χ₀` not small) -/
theorem sampleConMu_complete (mu : ℝ) (N_lab N_phi : M3 ℝ) (hl : IsRot N_lab) (hp : IsRot N_phi)
    (eta0 chi0 phi0 : ℝ) (hF : FullSpec N_lab N_phi (mu, eta0, chi0, phi0))
    (hgen : Scalar.isSmall (Real.sin (Real.arccos (Real.cos chi0))) = false) :
    ∃ l, sampleConMu mu N_lab N_phi = .ok l ∧
      ∃ t ∈ l, t.1 = mu ∧ SameAngle t.2.1 eta0 ∧ SameAngle t.2.2.1 chi0 ∧ SameAngle t.2.2.2 phi0 := by
  -- V = MUᵀ N_lab N_phiᵀ = ETA·CHI·PHI at the given angles
  have hV : M3.mul (M3.mul (M3.transpose (rotX mu)) N_lab) (M3.transpose N_phi) = ecp eta0 chi0 phi0 := by
    unfold FullSpec at hF
    simp only [] at hF
    rw [← hF, Z_eq_mu_ecp, M3.mul_assoc', M3.mul_assoc', rot_mul_transpose hp, M3.mul_id, ← M3.mul_assoc', (isRot_rotX mu).1, M3.id_mul]
  unfold sampleConMu
  simp only []
  rw [(gen_rot_senses mu).1, inv_rotX, hV, ecp_entries]
  simp only []
  have hcabs : |Real.cos chi0| ≤ 1 := Real.abs_cos_le_one _
  obtain ⟨c, hc⟩ := C11.boundAcos_ok hcabs
  obtain ⟨rfl, hcc⟩ := C01.boundAcos_ok hcabs hc
  unfold catchAssert
  simp only [bind, Except.bind, hc, rs_sin, hgen, Bool.false_eq_true, if_false, pure, Except.pure]
  refine ⟨_, rfl, ?_⟩
  set c := Real.arccos (Real.cos chi0) with hcdef
  -- which root is chi0?
  obtain ⟨chi', hmem, hsame⟩ : ∃ chi', chi' ∈ [c, -c] ∧ SameAngle chi' chi0 := by
    rcases acos_roots_complete chi0 (Real.cos chi0) hcabs rfl with h | h
    · exact ⟨c, by simp, sameAngle_symm h⟩
    · exact ⟨-c, by simp, sameAngle_symm h⟩
  have hsne : Real.sin chi' ≠ 0 := by
    have h1 : Real.sin c ≠ 0 := C01.not_small_ne_zero hgen
    simp only [List.mem_cons, List.not_mem_nil, or_false] at hmem
    rcases hmem with rfl | rfl
    · exact h1
    · rw [Real.sin_neg]; exact neg_ne_zero.mpr h1
  have hsmall : Scalar.isSmall (Real.sin chi') = false := by
    simp only [List.mem_cons, List.not_mem_nil, or_false] at hmem
    rcases hmem with rfl | rfl
    · exact hgen
    · rw [Real.sin_neg, C01.isSmall_real, abs_neg, ← C01.isSmall_real]; exact hgen
  obtain ⟨hsg, hsg2⟩ := C01.sign_facts (Real.sin chi') hsmall
  set sg := (Scalar.sign (Real.sin chi') : ℝ) with hsgdef
  have habs : 0 < |Real.sin chi'| := abs_pos.mpr hsne
  have hs0 : Real.sin chi0 = Real.sin chi' := hsame.1.symm
  refine ⟨(mu, atan2R (-sg * (-Real.sin eta0 * Real.sin chi0)) (sg * (Real.cos eta0 * Real.sin chi0)), chi',
      atan2R (-sg * (-Real.sin chi0 * Real.sin phi0)) (-sg * (-Real.sin chi0 * Real.cos phi0))), ?_, rfl, ?_, hsame, ?_⟩
  · simp only [rs_sin, rs_atan2, List.map_cons, List.map_nil, List.mem_cons, List.not_mem_nil, or_false] at hmem ⊢
    rcases hmem with rfl | rfl
    · left; rfl
    · right; rfl
  · simp only []
    apply sameAngle_atan2 _ _ |Real.sin chi'| eta0 habs
    · rw [hs0, ← hsg]; ring
    · rw [hs0, ← hsg]; ring
  · simp only []
    apply sameAngle_atan2 _ _ |Real.sin chi'| phi0 habs
    · rw [hs0, ← hsg]; ring
    · rw [hs0, ← hsg]; ring
/-- **completeness of `__calc_sample_con_phi`** (generic branch: `cos η₀` not small) -/
theorem sampleConPhi_complete (phi : ℝ) (N_lab N_phi : M3 ℝ) (hp : IsRot N_phi)
    (mu0 eta0 chi0 : ℝ) (hF : FullSpec N_lab N_phi (mu0, eta0, chi0, phi))
    (hgen : Scalar.isSmall (Real.cos (Real.arcsin (Real.sin eta0))) = false) :
    ∃ l, sampleConPhi phi N_lab N_phi = .ok l ∧
      ∃ t ∈ l, SameAngle t.1 mu0 ∧ SameAngle t.2.1 eta0 ∧ SameAngle t.2.2.1 chi0 ∧ t.2.2.2 = phi := by
  -- V = N_lab N_phiᵀ PHIᵀ = MU·ETA·CHI at the given angles
  have hV : M3.mul (M3.mul N_lab (M3.transpose N_phi)) (M3.transpose (rotZ (-phi))) = mec mu0 eta0 chi0 := by
    unfold FullSpec at hF
    simp only [] at hF
    have hZ : C04.Z mu0 eta0 chi0 phi = M3.mul (mec mu0 eta0 chi0) (rotZ (-phi)) := by simp only [C04.Z, mec]
    rw [← hF, hZ, M3.mul_assoc' _ N_phi, rot_mul_transpose hp, M3.mul_id, M3.mul_assoc', rot_mul_transpose (isRot_rotZ _), M3.mul_id]
  unfold sampleConPhi
  simp only []
  rw [(gen_rot_senses phi).2.2.2.2.2, inv_of_isRot' hp, hV, mec_entries]
  simp only []
  have hsabs : |Real.sin eta0| ≤ 1 := Real.abs_sin_le_one _
  obtain ⟨a, ha⟩ := C11.boundAsin_ok hsabs
  obtain ⟨rfl, hsa⟩ := C01.boundAsin_ok hsabs ha
  unfold tryAssert
  rw [ha]
  simp only [rs_cos, hgen, Bool.false_eq_true, if_false]
  refine ⟨_, rfl, ?_⟩
  set a := Real.arcsin (Real.sin eta0) with hadef
  obtain ⟨eta', hmem, hsame⟩ : ∃ eta', eta' ∈ [a, Real.pi - a] ∧ SameAngle eta' eta0 := by
    rcases asin_roots_complete eta0 (Real.sin eta0) hsabs rfl with h | h
    · exact ⟨a, by simp, sameAngle_symm h⟩
    · exact ⟨Real.pi - a, by simp, sameAngle_symm h⟩
  have hsmall : Scalar.isSmall (Real.cos eta') = false := by
    simp only [List.mem_cons, List.not_mem_nil, or_false] at hmem
    rcases hmem with rfl | rfl
    · exact hgen
    · rw [Real.cos_pi_sub, C01.isSmall_real, abs_neg, ← C01.isSmall_real]; exact hgen
  have hcne : Real.cos eta' ≠ 0 := C01.not_small_ne_zero hsmall
  obtain ⟨hsg, hsg2⟩ := C01.sign_facts (Real.cos eta') hsmall
  set sg := (Scalar.sign (Real.cos eta') : ℝ) with hsgdef
  have habs : 0 < |Real.cos eta'| := abs_pos.mpr hcne
  have hc0 : Real.cos eta0 = Real.cos eta' := hsame.2.symm
  refine ⟨(atan2R (sg * (Real.sin mu0 * Real.cos eta0)) (sg * (Real.cos mu0 * Real.cos eta0)), eta',
      atan2R (sg * (Real.cos eta0 * Real.sin chi0)) (sg * (Real.cos eta0 * Real.cos chi0)), phi), ?_, ?_, hsame, ?_, rfl⟩
  · simp only [rs_pi, rs_cos, rs_atan2, List.map_cons, List.map_nil, List.mem_cons, List.not_mem_nil, or_false] at hmem ⊢
    rcases hmem with rfl | rfl
    · left; rfl
    · right; rfl
  · simp only []
    apply sameAngle_atan2 _ _ |Real.cos eta'| mu0 habs
    · rw [hc0, ← hsg]; ring
    · rw [hc0, ← hsg]; ring
  · simp only []
    apply sameAngle_atan2 _ _ |Real.cos eta'| chi0 habs
    · rw [hc0, ← hsg]; ring
    · rw [hc0, ← hsg]; ring

/-- the entries of `Z = MU·ETA·CHI·PHI` used by the chi / eta branches -/
theorem Z_entries_row0_col2 (mu eta chi phi : ℝ) :
    (C04.Z mu eta chi phi).a00 = Real.cos eta * Real.cos chi * Real.cos phi - Real.sin eta * Real.sin phi ∧
    (C04.Z mu eta chi phi).a01 = Real.cos eta * Real.cos chi * Real.sin phi + Real.sin eta * Real.cos phi ∧
    (C04.Z mu eta chi phi).a02 = Real.cos eta * Real.sin chi ∧
    (C04.Z mu eta chi phi).a12 = -Real.cos mu * Real.sin eta * Real.sin chi - Real.sin mu * Real.cos chi ∧
    (C04.Z mu eta chi phi).a22 = -Real.sin mu * Real.sin eta * Real.sin chi + Real.cos mu * Real.cos chi := by
  refine ⟨?_, ?_, ?_, ?_, ?_⟩ <;>
    simp only [C04.Z, M3.mul, rotX, rotZ, rotY, rs_cos, rs_sin, rs_one, rs_zero, Real.cos_neg, Real.sin_neg] <;> ring

/-- **completeness of `__calc_sample_from_chi_eta`**: with `eta` and `chi` in hand, `mu` and `phi` are recovered modulo 2π -/
theorem sampleFromChiEta_complete (mu0 eta chi phi0 : ℝ)
    (hD : Real.sin eta ^ 2 * Real.sin chi ^ 2 + Real.cos chi ^ 2 ≠ 0)
    (hE : Real.sin eta ^ 2 + Real.cos eta ^ 2 * Real.cos chi ^ 2 ≠ 0)
    (hsm : (Scalar.isSmall ((C04.Z mu0 eta chi phi0).a22 * Real.sin eta * Real.sin chi + (C04.Z mu0 eta chi phi0).a12 * Real.cos chi) &&
            Scalar.isSmall (-(C04.Z mu0 eta chi phi0).a22 * Real.cos chi + (C04.Z mu0 eta chi phi0).a12 * Real.sin eta * Real.sin chi)) = false) :
    ∃ t, sampleFromChiEta chi eta (C04.Z mu0 eta chi phi0) = .ok [t] ∧
      SameAngle t.1 mu0 ∧ t.2.1 = eta ∧ t.2.2.1 = chi ∧ SameAngle t.2.2.2 phi0 := by
  obtain ⟨z00, z01, _, z12, z22⟩ := Z_entries_row0_col2 mu0 eta chi phi0
  unfold sampleFromChiEta
  simp only [rs_sin, rs_cos, rs_atan2]
  rw [hsm]
  simp only [Bool.false_eq_true, if_false]
  refine ⟨_, rfl, ?_, rfl, rfl, ?_⟩
  · simp only []
    have hDpos : 0 < Real.sin eta ^ 2 * Real.sin chi ^ 2 + Real.cos chi ^ 2 := lt_of_le_of_ne (by positivity) (Ne.symm hD)
    apply sameAngle_atan2 _ _ (Real.sin eta ^ 2 * Real.sin chi ^ 2 + Real.cos chi ^ 2) mu0 hDpos
    · rw [z22, z12]; ring
    · rw [z22, z12]; ring
  · simp only []
    have hEpos : 0 < Real.sin eta ^ 2 + Real.cos eta ^ 2 * Real.cos chi ^ 2 := lt_of_le_of_ne (by positivity) (Ne.symm hE)
    apply sameAngle_atan2 _ _ (Real.sin eta ^ 2 + Real.cos eta ^ 2 * Real.cos chi ^ 2) phi0 hEpos
    · rw [z00, z01]; ring
    · rw [z00, z01]; ring

/-- the pair of tests that makes `__calc_sample_from_chi_eta` give up -/
def chiEtaDegenerate (chi eta : ℝ) (Z : M3 ℝ) : Bool :=
  Scalar.isSmall (Z.a22 * Real.sin eta * Real.sin chi + Z.a12 * Real.cos chi) && Scalar.isSmall (-Z.a22 * Real.cos chi + Z.a12 * Real.sin eta * Real.sin chi)

theorem sampleFromChiEta_total (chi eta : ℝ) (Z : M3 ℝ) (h : chiEtaDegenerate chi eta Z = false) : ∃ l, sampleFromChiEta chi eta Z = .ok l := by
  unfold sampleFromChiEta
  simp only [rs_sin, rs_cos]
  unfold chiEtaDegenerate at h
  rw [h]
  exact ⟨_, rfl⟩

/-- **completeness of `__calc_sample_con_chi`** (detector + reference + chi given): both eta roots are tried, and the one that belongs to the given
    position brings mu and phi with it — provided neither root runs into the degenerate test of `__calc_sample_from_chi_eta` -/
theorem sampleConChi_complete (chi : ℝ) (N_lab N_phi : M3 ℝ) (hp : IsRot N_phi)
    (mu0 eta0 phi0 : ℝ) (hF : FullSpec N_lab N_phi (mu0, eta0, chi, phi0))
    (hsc : Scalar.isSmall (Real.sin chi) = false)
    (hall : ∀ e ∈ [Real.arccos (Real.cos eta0), -Real.arccos (Real.cos eta0)], chiEtaDegenerate chi e (C04.Z mu0 eta0 chi phi0) = false)
    (hD : Real.sin eta0 ^ 2 * Real.sin chi ^ 2 + Real.cos chi ^ 2 ≠ 0)
    (hE : Real.sin eta0 ^ 2 + Real.cos eta0 ^ 2 * Real.cos chi ^ 2 ≠ 0) :
    ∃ l, sampleConChi chi N_lab N_phi = .ok l ∧
      ∃ t ∈ l, SameAngle t.1 mu0 ∧ SameAngle t.2.1 eta0 ∧ t.2.2.1 = chi ∧ SameAngle t.2.2.2 phi0 := by
  have hZ : M3.mul N_lab (M3.transpose N_phi) = C04.Z mu0 eta0 chi phi0 := by
    unfold FullSpec at hF
    simp only [] at hF
    rw [← hF, M3.mul_assoc', rot_mul_transpose hp, M3.mul_id]
  have hsne : Real.sin chi ≠ 0 := C01.not_small_ne_zero hsc
  unfold sampleConChi
  simp only [rs_sin, hsc, Bool.false_eq_true, if_false]
  rw [hZ]
  have h02 : (C04.Z mu0 eta0 chi phi0).a02 / Real.sin chi = Real.cos eta0 := by
    rw [(Z_entries_row0_col2 mu0 eta0 chi phi0).2.2.1]; field_simp
  rw [h02]
  have hcabs : |Real.cos eta0| ≤ 1 := Real.abs_cos_le_one _
  obtain ⟨c, hc⟩ := C11.boundAcos_ok hcabs
  obtain ⟨rfl, _⟩ := C01.boundAcos_ok hcabs hc
  unfold tryAssert
  rw [hc]
  simp only []
  set c := Real.arccos (Real.cos eta0) with hcdef
  obtain ⟨l, hl, hmem⟩ := forM'_complete [c, -c] (fun e => sampleFromChiEta chi e (C04.Z mu0 eta0 chi phi0))
    (fun e he => sampleFromChiEta_total chi e _ (hall e he))
  refine ⟨l, hl, ?_⟩
  obtain ⟨eta', hm, hsame⟩ : ∃ eta', eta' ∈ [c, -c] ∧ SameAngle eta' eta0 := by
    rcases acos_roots_complete eta0 (Real.cos eta0) hcabs rfl with h | h
    · exact ⟨c, by simp, sameAngle_symm h⟩
    · exact ⟨-c, by simp, sameAngle_symm h⟩
  have hZ' : C04.Z mu0 eta0 chi phi0 = C04.Z mu0 eta' chi phi0 := (Z_congr mu0 mu0 eta' eta0 chi phi0 ⟨rfl, rfl⟩ hsame).symm
  have hdeg := hall eta' hm
  rw [hZ'] at hdeg
  unfold chiEtaDegenerate at hdeg
  obtain ⟨t, ht, h1, h2, h3, h4⟩ := sampleFromChiEta_complete mu0 eta' chi phi0 (by rw [hsame.1]; exact hD) (by rw [hsame.1, hsame.2]; exact hE) hdeg
  refine ⟨t, hmem eta' hm [t] (by rw [hZ']; exact ht) t (by simp), h1, ?_, h3, h4⟩
  rw [h2]; exact hsame

theorem Z_congr_chi (mu eta chi chi' phi : ℝ) (h : SameAngle chi chi') : C04.Z mu eta chi phi = C04.Z mu eta chi' phi := by
  unfold C04.Z rotY
  simp only [rs_cos, rs_sin, h.1, h.2]

/-- **completeness of `__calc_sample_con_eta`** (detector + reference + eta given) -/
theorem sampleConEta_complete (eta : ℝ) (N_lab N_phi : M3 ℝ) (hp : IsRot N_phi)
    (mu0 chi0 phi0 : ℝ) (hF : FullSpec N_lab N_phi (mu0, eta, chi0, phi0))
    (hce : Scalar.isSmall (Real.cos eta) = false)
    (hall : ∀ x ∈ [Real.arcsin (Real.sin chi0), Real.pi - Real.arcsin (Real.sin chi0)], chiEtaDegenerate x eta (C04.Z mu0 eta chi0 phi0) = false)
    (hD : Real.sin eta ^ 2 * Real.sin chi0 ^ 2 + Real.cos chi0 ^ 2 ≠ 0)
    (hE : Real.sin eta ^ 2 + Real.cos eta ^ 2 * Real.cos chi0 ^ 2 ≠ 0) :
    ∃ l, sampleConEta eta N_lab N_phi = .ok l ∧
      ∃ t ∈ l, SameAngle t.1 mu0 ∧ t.2.1 = eta ∧ SameAngle t.2.2.1 chi0 ∧ SameAngle t.2.2.2 phi0 := by
  have hZ : M3.mul N_lab (M3.transpose N_phi) = C04.Z mu0 eta chi0 phi0 := by
    unfold FullSpec at hF
    simp only [] at hF
    rw [← hF, M3.mul_assoc', rot_mul_transpose hp, M3.mul_id]
  have hcne : Real.cos eta ≠ 0 := C01.not_small_ne_zero hce
  unfold sampleConEta
  simp only [rs_cos, hce, Bool.false_eq_true, if_false]
  rw [hZ]
  have h02 : (C04.Z mu0 eta chi0 phi0).a02 / Real.cos eta = Real.sin chi0 := by
    rw [(Z_entries_row0_col2 mu0 eta chi0 phi0).2.2.1]; field_simp
  rw [h02]
  have hsabs : |Real.sin chi0| ≤ 1 := Real.abs_sin_le_one _
  obtain ⟨a, ha⟩ := C11.boundAsin_ok hsabs
  obtain ⟨rfl, _⟩ := C01.boundAsin_ok hsabs ha
  unfold tryAssert
  rw [ha]
  simp only [rs_pi]
  set a := Real.arcsin (Real.sin chi0) with hadef
  obtain ⟨l, hl, hmem⟩ := forM'_complete [a, Real.pi - a] (fun x => sampleFromChiEta x eta (C04.Z mu0 eta chi0 phi0))
    (fun x hx => sampleFromChiEta_total x eta _ (hall x hx))
  refine ⟨l, hl, ?_⟩
  obtain ⟨chi', hm, hsame⟩ : ∃ chi', chi' ∈ [a, Real.pi - a] ∧ SameAngle chi' chi0 := by
    rcases asin_roots_complete chi0 (Real.sin chi0) hsabs rfl with h | h
    · exact ⟨a, by simp, sameAngle_symm h⟩
    · exact ⟨Real.pi - a, by simp, sameAngle_symm h⟩
  have hZ' : C04.Z mu0 eta chi0 phi0 = C04.Z mu0 eta chi' phi0 := (Z_congr_chi mu0 eta chi' chi0 phi0 hsame).symm
  have hdeg := hall chi' hm
  rw [hZ'] at hdeg
  unfold chiEtaDegenerate at hdeg
  obtain ⟨t, ht, h1, h2, h3, h4⟩ := sampleFromChiEta_complete mu0 eta chi' phi0 (by rw [hsame.1, hsame.2]; exact hD) (by rw [hsame.2]; exact hE) hdeg
  refine ⟨t, hmem chi' hm [t] (by rw [hZ']; exact ht) t (by simp), h1, h2, ?_, h4⟩
  rw [h3]; exact hsame

end
end C03
