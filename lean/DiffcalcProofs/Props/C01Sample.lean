import DiffcalcProofs.Props.C01
import DiffcalcProofs.Props.C07
import DiffcalcProofs.Props.C11
/-!
# C01 — exact soundness of the sample-angle layers (`calc_sample.py`)

For every branch: each tuple `(mu, eta, chi, phi)` it returns satisfies the sample relation of You (1999) eq. (18) exactly,
`Z(mu, eta, chi, phi) · ĥ = q̂(θ, qaz)` with `ĥ` the unit scattering direction in the phi frame (first column of `N_phi`),
provided the argument of the `asin`/`acos` was not clipped by `bound` (|x| ≤ 1; the clip only acts within 1e-7 above 1).
Together with `C01.composition` and the detector relation this gives `get_hkl(position) = hkl` exactly.
-/
namespace C01
open M3 Solver Scalar PyOps
noncomputable section

/-- the sample relation, eq. (18), on unit vectors -/
def SampleSpec (h : V3 ℝ) (theta qaz : ℝ) (t : STuple ℝ) : Prop :=
  M3.mulVec (C04.Z t.1 t.2.1 t.2.2.1 t.2.2.2) h = qDir theta qaz

/-- the two inner circles acting on `h`: `CHI · PHI · h` -/
def inner (chi phi : ℝ) (h : V3 ℝ) : V3 ℝ := M3.mulVec (M3.mul (rotY chi) (rotZ (-phi))) h
/-- the two outer circles undone on `q`: `ETAᵀ · MUᵀ · q` -/
def outerInv (mu eta : ℝ) (q : V3 ℝ) : V3 ℝ := M3.mulVec (M3.mul (M3.transpose (rotZ (-eta))) (M3.transpose (rotX mu))) q

theorem rot_mul_transpose {r : M3 ℝ} (h : IsRot r) : M3.mul r (M3.transpose r) = M3.id := by
  have := (C04.isRot_transpose h).1
  have e : M3.transpose (M3.transpose r) = r := by cases r; rfl
  rwa [e] at this

/-- splitting `Z = (MU·ETA)·(CHI·PHI)`: the sample relation is `CHI·PHI·h = ETAᵀ·MUᵀ·q` -/
theorem sampleSpec_of_inner (mu eta chi phi : ℝ) (h q : V3 ℝ) (hin : inner chi phi h = outerInv mu eta q) :
    M3.mulVec (C04.Z mu eta chi phi) h = q := by
  have e : C04.Z mu eta chi phi = M3.mul (M3.mul (rotX mu) (rotZ (-eta))) (M3.mul (rotY chi) (rotZ (-phi))) := by
    simp only [C04.Z, M3.mul_assoc']
  rw [e, M3.mulVec_mul]
  unfold inner at hin
  rw [hin, outerInv, ← M3.mulVec_mul]
  have : M3.mul (M3.mul (rotX mu) (rotZ (-eta))) (M3.mul (M3.transpose (rotZ (-eta))) (M3.transpose (rotX mu))) = M3.id := by
    rw [M3.mul_assoc', ← M3.mul_assoc' (rotZ (-eta)), rot_mul_transpose (isRot_rotZ _), M3.id_mul, rot_mul_transpose (isRot_rotX _)]
  rw [this, M3.mulVec_id]

theorem inner_comps (chi phi : ℝ) (h : V3 ℝ) :
    inner chi phi h = ⟨(h.x * Real.cos phi + h.y * Real.sin phi) * Real.cos chi + h.z * Real.sin chi,
                       -h.x * Real.sin phi + h.y * Real.cos phi,
                       -(h.x * Real.cos phi + h.y * Real.sin phi) * Real.sin chi + h.z * Real.cos chi⟩ := by
  ext <;> simp only [inner, M3.mulVec, M3.mul, rotY, rotZ, rs_cos, rs_sin, rs_one, rs_zero, Real.cos_neg, Real.sin_neg] <;> ring

theorem outerInv_comps (mu eta : ℝ) (q : V3 ℝ) :
    outerInv mu eta q = ⟨q.x * Real.cos eta - (q.y * Real.cos mu + q.z * Real.sin mu) * Real.sin eta,
                         q.x * Real.sin eta + (q.y * Real.cos mu + q.z * Real.sin mu) * Real.cos eta,
                         -q.y * Real.sin mu + q.z * Real.cos mu⟩ := by
  ext <;> simp only [outerInv, M3.mulVec, M3.mul, M3.transpose, rotX, rotZ, rs_cos, rs_sin, rs_one, rs_zero, Real.cos_neg, Real.sin_neg] <;> ring

theorem qDir_unit (theta qaz : ℝ) : (qDir theta qaz).x ^ 2 + (qDir theta qaz).y ^ 2 + (qDir theta qaz).z ^ 2 = 1 := by
  simp only [qDir]
  have h1 := Real.sin_sq_add_cos_sq theta
  have h2 := Real.sin_sq_add_cos_sq qaz
  nlinarith [h1, h2]

theorem outerInv_unit (mu eta : ℝ) (q : V3 ℝ) (hq : q.x ^ 2 + q.y ^ 2 + q.z ^ 2 = 1) :
    (outerInv mu eta q).x ^ 2 + (outerInv mu eta q).y ^ 2 + (outerInv mu eta q).z ^ 2 = 1 := by
  rw [outerInv_comps]
  simp only []
  have h1 := Real.sin_sq_add_cos_sq mu
  have h2 := Real.sin_sq_add_cos_sq eta
  linear_combination hq + (q.x ^ 2 + (q.y * Real.cos mu + q.z * Real.sin mu) ^ 2) * h2 + (q.y ^ 2 + q.z ^ 2) * h1

/-- `atan2` returns the angle of the point `(X, Y)`: for `X² + Y² = R²`, `R > 0` -/
theorem atan2_cs (X Y R : ℝ) (hR : 0 < R) (h : X ^ 2 + Y ^ 2 = R ^ 2) :
    Real.cos (atan2R Y X) = X / R ∧ Real.sin (atan2R Y X) = Y / R := by
  have hs : Real.sqrt (X ^ 2 + Y ^ 2) = R := by rw [h, Real.sqrt_sq hR.le]
  have hne : X ≠ 0 ∨ Y ≠ 0 := by
    by_contra hc; push_neg at hc; obtain ⟨a, b⟩ := hc; rw [a, b] at h; nlinarith
  exact ⟨by rw [cos_atan2R hne, hs], by rw [sin_atan2R, hs]⟩

/-- the last circle (chi about y) is fixed by `atan2`: if the in-plane lengths agree the rotation maps `(a, h2)` onto `(v0, v2)` -/
theorem chi_solve (a h2 v0 v2 : ℝ) (hD : a ^ 2 + h2 ^ 2 = v0 ^ 2 + v2 ^ 2) :
    a * Real.cos (atan2R (h2 * v0 - a * v2) (h2 * v2 + a * v0)) + h2 * Real.sin (atan2R (h2 * v0 - a * v2) (h2 * v2 + a * v0)) = v0 ∧
    -a * Real.sin (atan2R (h2 * v0 - a * v2) (h2 * v2 + a * v0)) + h2 * Real.cos (atan2R (h2 * v0 - a * v2) (h2 * v2 + a * v0)) = v2 := by
  by_cases hz : a ^ 2 + h2 ^ 2 = 0
  · have ha : a = 0 := by nlinarith [sq_nonneg a, sq_nonneg h2]
    have hh : h2 = 0 := by nlinarith [sq_nonneg a, sq_nonneg h2]
    have hv : v0 ^ 2 + v2 ^ 2 = 0 := by rw [← hD, hz]
    have hv0 : v0 = 0 := by nlinarith [sq_nonneg v0, sq_nonneg v2]
    have hv2 : v2 = 0 := by nlinarith [sq_nonneg v0, sq_nonneg v2]
    simp [ha, hh, hv0, hv2]
  · have hDpos : 0 < a ^ 2 + h2 ^ 2 := lt_of_le_of_ne (by positivity) (Ne.symm hz)
    obtain ⟨hc, hs⟩ := atan2_cs (h2 * v2 + a * v0) (h2 * v0 - a * v2) (a ^ 2 + h2 ^ 2) hDpos (by linear_combination (a ^ 2 + h2 ^ 2) * hD * (-1) + (a^2+h2^2) * (v0^2+v2^2) * 0 + ((a ^ 2 + h2 ^ 2) * (v0 ^ 2 + v2 ^ 2) - (a ^ 2 + h2 ^ 2) ^ 2) * 0)
    rw [hc, hs]
    have hne := hDpos.ne'
    constructor
    · field_simp; linear_combination (-v0) * hD * 0
    · field_simp; linear_combination (-v2) * hD * 0

theorem allOk_tryAssert {β γ : Type} {P : β → Prop} {m : Py γ} {k : γ → Py (List β)} (h : ∀ v, m = .ok v → AllOk P (k v)) :
    AllOk P (tryAssert m k) := by
  unfold tryAssert
  cases m with
  | ok v => exact h v rfl
  | error e => cases e <;> first | exact allOk_nil | exact allOk_error _

/-- `asin(bound x)` for an argument inside [-1, 1]: the value whose sine is `x` -/
theorem boundAsin_ok {x v : ℝ} (hx : |x| ≤ 1) (h : boundAsin x = .ok v) : v = Real.arcsin x ∧ Real.sin v = x := by
  obtain ⟨l, u⟩ := abs_le.mp hx
  have hb : bound x = .ok x := by
    have c1 : Scalar.lt (Scalar.one + Scalar.SMALL : ℝ) (Scalar.abs x) = false := by
      simp only [rs_lt, rs_abs, rs_one, Scalar.SMALL, Scalar.ofSci, decide_eq_false_iff_not, not_lt]
      have : (0:ℝ) ≤ OfScientific.ofScientific 1 true 7 := by norm_num
      linarith
    have c2 : Scalar.lt (Scalar.one : ℝ) x = false := by simp only [rs_lt, rs_one, decide_eq_false_iff_not, not_lt]; exact u
    have c3 : Scalar.lt x (-(Scalar.one : ℝ)) = false := by simp only [rs_lt, rs_one, decide_eq_false_iff_not, not_lt]; exact l
    simp only [bound, c1, c2, c3, Bool.false_eq_true, if_false]
  simp only [boundAsin, hb, bind, Except.bind, pyAsin_ok hx, Except.ok.injEq] at h
  subst h
  exact ⟨rfl, Real.sin_arcsin l u⟩

/-- first column of `F·THETA` is the unit scattering direction -/
theorem F_THETA_col0 (qaz theta : ℝ) :
    let M := M3.mul (Gen.y_rotation (qaz - Scalar.pi / Scalar.two)) (Gen.z_rotation (-theta))
    (⟨M.a00, M.a10, M.a20⟩ : V3 ℝ) = qDir theta qaz := by
  simp only [gen_y_rotation, gen_z_rotation, rs_pi, rs_two]
  have h1 : Real.cos (qaz - Real.pi / 2) = Real.sin qaz := by rw [Real.cos_sub, Real.cos_pi_div_two, Real.sin_pi_div_two]; ring
  have h2 : Real.sin (qaz - Real.pi / 2) = -Real.cos qaz := by rw [Real.sin_sub, Real.cos_pi_div_two, Real.sin_pi_div_two]; ring
  ext <;> simp only [M3.mul, rotY, rotZ, qDir, rs_cos, rs_sin, rs_one, rs_zero, Real.cos_neg, Real.sin_neg, h1, h2] <;> ring

/-- first column of the matrix `V = ETAᵀ MUᵀ F THETA` used by the mu+eta branch -/
theorem V_muEta_col0 (mu eta qaz theta : ℝ) :
    let V := M3.mul (M3.mul (M3.mul (M3.transpose (Gen.rot_ETA eta)) (M3.transpose (Gen.rot_MU mu))) (Gen.y_rotation (qaz - Scalar.pi / Scalar.two)))
      (Gen.z_rotation (-theta))
    (⟨V.a00, V.a10, V.a20⟩ : V3 ℝ) = outerInv mu eta (qDir theta qaz) := by
  have hF := F_THETA_col0 qaz theta
  simp only [] at hF ⊢
  rw [← hF]
  simp only [(gen_rot_senses eta).2.2.2.2.1, (gen_rot_senses mu).1, outerInv, M3.mul_assoc']
  ext <;> simp only [M3.mulVec, M3.mul] <;> ring

/-- **mu + eta given** (`__calc_sample_con_mu_eta`): every returned tuple satisfies the sample relation exactly -/
theorem sampleConMuEta_sound (mu eta qaz theta : ℝ) (N : M3 ℝ) (hN : N.a00 ^ 2 + N.a10 ^ 2 + N.a20 ^ 2 = 1)
    (hclip : |(-(outerInv mu eta (qDir theta qaz)).y) / Scalar.hypot N.a00 N.a10| ≤ 1) :
    AllOk (SampleSpec ⟨N.a00, N.a10, N.a20⟩ theta qaz) (sampleConMuEta mu eta qaz theta N) := by
  have hV := V_muEta_col0 mu eta qaz theta
  simp only [] at hV
  unfold sampleConMuEta
  simp only []
  set V := M3.mul (M3.mul (M3.mul (M3.transpose (Gen.rot_ETA eta)) (M3.transpose (Gen.rot_MU mu))) (Gen.y_rotation (qaz - Scalar.pi / Scalar.two)))
      (Gen.z_rotation (-theta)) with hVdef
  set v := outerInv mu eta (qDir theta qaz) with hv
  have hv0 : V.a00 = v.x := congrArg V3.x hV
  have hv1 : V.a10 = v.y := congrArg V3.y hV
  have hv2 : V.a20 = v.z := congrArg V3.z hV
  have hvu := outerInv_unit mu eta _ (qDir_unit theta qaz)
  rw [← hv] at hvu
  split
  · exact allOk_error _
  · rename_i hsm
    -- r = hypot(h0, h1) > 0
    have hr : 0 < Scalar.hypot N.a00 N.a10 := by
      simp only [Scalar.hypot, rs_sqrt]
      apply Real.sqrt_pos.mpr
      by_contra hc
      have h0 : N.a00 = 0 := by nlinarith [mul_self_nonneg N.a00, mul_self_nonneg N.a10]
      have h1 : N.a10 = 0 := by nlinarith [mul_self_nonneg N.a00, mul_self_nonneg N.a10]
      apply hsm
      simp [h0, h1, isSmall_real]; norm_num
    apply allOk_tryAssert
    intro s hs
    rw [hv1] at hs
    obtain ⟨_, hsin⟩ := boundAsin_ok hclip hs
    apply allOk_ok
    intro t ht
    have hr2 : N.a00 ^ 2 + N.a10 ^ 2 = Scalar.hypot N.a00 N.a10 ^ 2 := by
      simp only [Scalar.hypot, rs_sqrt]; rw [Real.sq_sqrt (by nlinarith [mul_self_nonneg N.a00, mul_self_nonneg N.a10])]; ring
    set r := Scalar.hypot N.a00 N.a10 with hrdef
    obtain ⟨hce, hse⟩ := atan2_cs N.a00 N.a10 r hr hr2
    have hrne := hr.ne'
    have h0 : N.a00 = r * Real.cos (atan2R N.a10 N.a00) := by rw [hce]; field_simp
    have h1 : N.a10 = r * Real.sin (atan2R N.a10 N.a00) := by rw [hse]; field_simp
    have hsc := Real.sin_sq_add_cos_sq (atan2R N.a10 N.a00)
    have hS : r * Real.sin s = -v.y := by rw [hsin]; field_simp
    -- both roots have the same sine
    have key : ∀ phi : ℝ, (Real.sin phi = Real.sin s * Real.cos (atan2R N.a10 N.a00) + Real.cos s * Real.sin (atan2R N.a10 N.a00) ∧
                           Real.cos phi = Real.cos s * Real.cos (atan2R N.a10 N.a00) - Real.sin s * Real.sin (atan2R N.a10 N.a00)) ∨
                          (Real.sin phi = Real.sin s * Real.cos (atan2R N.a10 N.a00) - Real.cos s * Real.sin (atan2R N.a10 N.a00) ∧
                           Real.cos phi = -Real.cos s * Real.cos (atan2R N.a10 N.a00) - Real.sin s * Real.sin (atan2R N.a10 N.a00)) →
        SampleSpec ⟨N.a00, N.a10, N.a20⟩ theta qaz
          (mu, eta, atan2R (N.a20 * V.a00 - (N.a00 * Real.cos phi + N.a10 * Real.sin phi) * V.a20)
                            (N.a20 * V.a20 + (N.a00 * Real.cos phi + N.a10 * Real.sin phi) * V.a00), phi) := by
      intro phi hphi
      unfold SampleSpec
      apply sampleSpec_of_inner
      rw [inner_comps, ← hv]
      simp only []
      have hy : -N.a00 * Real.sin phi + N.a10 * Real.cos phi = v.y := by
        rcases hphi with ⟨e1, e2⟩ | ⟨e1, e2⟩ <;> rw [e1, e2]
        · linear_combination (-(Real.sin s * Real.cos (atan2R N.a10 N.a00)) - Real.cos s * Real.sin (atan2R N.a10 N.a00)) * h0
            + (Real.cos s * Real.cos (atan2R N.a10 N.a00) - Real.sin s * Real.sin (atan2R N.a10 N.a00)) * h1 - hS - (r * Real.sin s) * hsc
        · linear_combination (-(Real.sin s * Real.cos (atan2R N.a10 N.a00)) + Real.cos s * Real.sin (atan2R N.a10 N.a00)) * h0
            + (-Real.cos s * Real.cos (atan2R N.a10 N.a00) - Real.sin s * Real.sin (atan2R N.a10 N.a00)) * h1 - hS - (r * Real.sin s) * hsc
      have hp := Real.sin_sq_add_cos_sq phi
      have hD : (N.a00 * Real.cos phi + N.a10 * Real.sin phi) ^ 2 + N.a20 ^ 2 = v.x ^ 2 + v.z ^ 2 := by
        have : (N.a00 * Real.cos phi + N.a10 * Real.sin phi) ^ 2 + (-N.a00 * Real.sin phi + N.a10 * Real.cos phi) ^ 2 = N.a00 ^ 2 + N.a10 ^ 2 := by
          linear_combination (N.a00 ^ 2 + N.a10 ^ 2) * hp
        rw [hy] at this
        linarith
      obtain ⟨cx, cz⟩ := chi_solve (N.a00 * Real.cos phi + N.a10 * Real.sin phi) N.a20 v.x v.z hD
      rw [hv0, hv2]
      ext
      · exact cx
      · exact hy
      · exact cz
    simp only [List.map_cons, List.map_nil, List.mem_cons, List.not_mem_nil, or_false, rs_atan2, rs_cos, rs_sin, rs_pi] at ht
    rcases ht with rfl | rfl
    · apply key
      left
      exact ⟨Real.sin_add _ _, Real.cos_add _ _⟩
    · apply key
      right
      constructor
      · rw [Real.sin_add, Real.sin_pi_sub, Real.cos_pi_sub]; ring
      · rw [Real.cos_add, Real.sin_pi_sub, Real.cos_pi_sub]

/-- the `asin` argument of the mu+eta branch, for the tuple's own mu and eta, was not clipped -/
def ClipMuEta (N : M3 ℝ) (theta qaz : ℝ) (t : STuple ℝ) : Prop :=
  |(-(outerInv t.1 t.2.1 (qDir theta qaz)).y) / Scalar.hypot N.a00 N.a10| ≤ 1

theorem sampleConMuEta_sound' (mu eta qaz theta : ℝ) (N : M3 ℝ) (hN : N.a00 ^ 2 + N.a10 ^ 2 + N.a20 ^ 2 = 1) :
    AllOk (fun t => ClipMuEta N theta qaz t → SampleSpec ⟨N.a00, N.a10, N.a20⟩ theta qaz t) (sampleConMuEta mu eta qaz theta N) := by
  by_cases hc : |(-(outerInv mu eta (qDir theta qaz)).y) / Scalar.hypot N.a00 N.a10| ≤ 1
  · exact allOk_mono (sampleConMuEta_sound mu eta qaz theta N hN hc) (fun t ht _ => ht)
  · -- every tuple carries the given mu and eta, so its clip condition is the one that fails
    have hpt : AllOk (fun t : STuple ℝ => t.1 = mu ∧ t.2.1 = eta) (sampleConMuEta mu eta qaz theta N) := by
      unfold sampleConMuEta; (try simp only []); split
      · exact allOk_error _
      · apply allOk_tryAssert; intro a _
        apply allOk_ok; intro t ht
        obtain ⟨phi, _, rfl⟩ := List.mem_map.mp ht
        exact ⟨rfl, rfl⟩
    refine allOk_mono hpt ?_
    rintro t ⟨h1, h2⟩ hclip
    unfold ClipMuEta at hclip
    rw [h1, h2] at hclip
    exact absurd hclip hc

/-- **omega + bisect, mu + bisect, eta + bisect**: they choose `(mu, eta)` pairs and hand over to the mu+eta branch -/
theorem sampleConOmegaBisect_sound (omega qaz theta : ℝ) (N : M3 ℝ) (hN : N.a00 ^ 2 + N.a10 ^ 2 + N.a20 ^ 2 = 1) :
    AllOk (fun t => ClipMuEta N theta qaz t → SampleSpec ⟨N.a00, N.a10, N.a20⟩ theta qaz t) (sampleConOmegaBisect omega qaz theta N) := by
  unfold sampleConOmegaBisect
  simp only []
  apply allOk_forM'
  rintro ⟨m, e⟩ _
  exact sampleConMuEta_sound' m e qaz theta N hN

theorem sampleConMuBisect_sound (mu qaz theta : ℝ) (N : M3 ℝ) (hN : N.a00 ^ 2 + N.a10 ^ 2 + N.a20 ^ 2 = 1) :
    AllOk (fun t => ClipMuEta N theta qaz t → SampleSpec ⟨N.a00, N.a10, N.a20⟩ theta qaz t) (sampleConMuBisect mu qaz theta N) := by
  unfold sampleConMuBisect
  simp only []
  split
  · exact allOk_nil
  · apply allOk_forM'
    intro e _
    exact sampleConMuEta_sound' mu e qaz theta N hN

theorem sampleConEtaBisect_sound (eta qaz theta : ℝ) (N : M3 ℝ) (hN : N.a00 ^ 2 + N.a10 ^ 2 + N.a20 ^ 2 = 1) :
    AllOk (fun t => ClipMuEta N theta qaz t → SampleSpec ⟨N.a00, N.a10, N.a20⟩ theta qaz t) (sampleConEtaBisect eta qaz theta N) := by
  have hrest : ∀ ths : List ℝ, AllOk (fun t => ClipMuEta N theta qaz t → SampleSpec ⟨N.a00, N.a10, N.a20⟩ theta qaz t)
      (forM' (ths.flatMap fun thomega => [Scalar.atan (Scalar.tan thomega * Scalar.cos qaz), Scalar.pi + Scalar.atan (Scalar.tan thomega * Scalar.cos qaz)])
        fun m => sampleConMuEta m eta qaz theta N) := by
    intro ths
    apply allOk_forM'
    intro m _
    exact sampleConMuEta_sound' m eta qaz theta N hN
  unfold sampleConEtaBisect
  simp only []
  split
  · split
    · exact hrest _
    · exact allOk_nil
  · apply allOk_tryAssert
    intro a _
    split
    · exact hrest _
    · exact hrest _

/-! ## helper lemmas shared by the remaining branches -/

/-- planar rotation fixed by `atan2`: if `(a, b)` and `(u, v)` have the same length, the angle `atan2(u b − v a, u a + v b)` takes one onto the other -/
theorem rot_solve (a b u v : ℝ) (hD : a ^ 2 + b ^ 2 = u ^ 2 + v ^ 2) :
    a * Real.cos (atan2R (u * b - v * a) (u * a + v * b)) + b * Real.sin (atan2R (u * b - v * a) (u * a + v * b)) = u ∧
    -a * Real.sin (atan2R (u * b - v * a) (u * a + v * b)) + b * Real.cos (atan2R (u * b - v * a) (u * a + v * b)) = v := by
  have := chi_solve a b u v hD
  have e1 : b * u - a * v = u * b - v * a := by ring
  have e2 : b * v + a * u = u * a + v * b := by ring
  rw [e1, e2] at this
  exact this

/-- the two roots `s + ε`, `π − s + ε` (`ε = atan2(p1, p0)`) of `−p0 sin t + p1 cos t = −r sin s` -/
theorem asin_roots (p0 p1 r s t : ℝ) (hr : 0 < r) (hr2 : p0 ^ 2 + p1 ^ 2 = r ^ 2)
    (ht : t = s + atan2R p1 p0 ∨ t = Real.pi - s + atan2R p1 p0) :
    -p0 * Real.sin t + p1 * Real.cos t = -(r * Real.sin s) := by
  obtain ⟨hce, hse⟩ := atan2_cs p0 p1 r hr hr2
  have hrne := hr.ne'
  have h0 : p0 = r * Real.cos (atan2R p1 p0) := by rw [hce]; field_simp
  have h1 : p1 = r * Real.sin (atan2R p1 p0) := by rw [hse]; field_simp
  have hsc := Real.sin_sq_add_cos_sq (atan2R p1 p0)
  rcases ht with rfl | rfl
  · rw [Real.sin_add, Real.cos_add]
    linear_combination (-(Real.sin s * Real.cos (atan2R p1 p0)) - Real.cos s * Real.sin (atan2R p1 p0)) * h0
      + (Real.cos s * Real.cos (atan2R p1 p0) - Real.sin s * Real.sin (atan2R p1 p0)) * h1 - (r * Real.sin s) * hsc
  · rw [Real.sin_add, Real.cos_add, Real.sin_pi_sub, Real.cos_pi_sub]
    linear_combination (-(Real.sin s * Real.cos (atan2R p1 p0)) + Real.cos s * Real.sin (atan2R p1 p0)) * h0
      + (-Real.cos s * Real.cos (atan2R p1 p0) - Real.sin s * Real.sin (atan2R p1 p0)) * h1 - (r * Real.sin s) * hsc

theorem hypot_sq (x y : ℝ) : x ^ 2 + y ^ 2 = Scalar.hypot x y ^ 2 := by
  simp only [Scalar.hypot, rs_sqrt]; rw [Real.sq_sqrt (by nlinarith [mul_self_nonneg x, mul_self_nonneg y])]; ring

theorem hypot_pos_of (x y : ℝ) (h : x ≠ 0 ∨ y ≠ 0) : 0 < Scalar.hypot x y := by
  simp only [Scalar.hypot, rs_sqrt]
  apply Real.sqrt_pos.mpr
  rcases h with h | h
  · have := mul_self_pos.mpr h; nlinarith [mul_self_nonneg y]
  · have := mul_self_pos.mpr h; nlinarith [mul_self_nonneg x]

/-- splitting `Z = MU·(ETA·CHI)·PHI`: the sample relation is `ETA·CHI·(PHI·h) = MUᵀ·q` -/
theorem sampleSpec_of_mid (mu eta chi phi : ℝ) (h q : V3 ℝ)
    (hmid : M3.mulVec (M3.mul (rotZ (-eta)) (rotY chi)) (M3.mulVec (rotZ (-phi)) h) = M3.mulVec (M3.transpose (rotX mu)) q) :
    M3.mulVec (C04.Z mu eta chi phi) h = q := by
  have e : C04.Z mu eta chi phi = M3.mul (rotX mu) (M3.mul (M3.mul (rotZ (-eta)) (rotY chi)) (rotZ (-phi))) := by
    simp only [C04.Z, M3.mul_assoc']
  rw [e, M3.mulVec_mul, M3.mulVec_mul, hmid, ← M3.mulVec_mul, rot_mul_transpose (isRot_rotX _), M3.mulVec_id]

/-- **mu + phi given** (`__calc_sample_con_mu_phi`) -/
theorem sampleConMuPhi_sound (mu phi qaz theta : ℝ) (N : M3 ℝ) (hN : N.a00 ^ 2 + N.a10 ^ 2 + N.a20 ^ 2 = 1)
    (hE : N.a00 * Real.cos phi + N.a10 * Real.sin phi ≠ 0 ∨ N.a20 ≠ 0)
    (hclip : |(-(M3.mulVec (M3.transpose (rotX mu)) (qDir theta qaz)).z) / Scalar.hypot (N.a00 * Real.cos phi + N.a10 * Real.sin phi) N.a20| ≤ 1) :
    AllOk (SampleSpec ⟨N.a00, N.a10, N.a20⟩ theta qaz) (sampleConMuPhi mu phi qaz theta N) := by
  -- first columns of V = MUᵀ F THETA and E = PHI N_phi
  have hF := F_THETA_col0 qaz theta
  simp only [] at hF
  set w := M3.mulVec (M3.transpose (rotX mu)) (qDir theta qaz) with hw
  unfold sampleConMuPhi
  simp only []
  set V := M3.mul (M3.mul (M3.transpose (Gen.rot_MU mu)) (Gen.y_rotation (qaz - Scalar.pi / Scalar.two))) (Gen.z_rotation (-theta)) with hVdef
  set E := M3.mul (Gen.rot_PHI phi) N with hEdef
  have hVc : (⟨V.a00, V.a10, V.a20⟩ : V3 ℝ) = w := by
    rw [hw, ← hF, hVdef]
    simp only [(gen_rot_senses mu).1, M3.mul_assoc']
    ext <;> simp only [M3.mulVec, M3.mul] <;> ring
  have hv0 : V.a00 = w.x := congrArg V3.x hVc
  have hv1 : V.a10 = w.y := congrArg V3.y hVc
  have hv2 : V.a20 = w.z := congrArg V3.z hVc
  have he0 : E.a00 = N.a00 * Real.cos phi + N.a10 * Real.sin phi := by
    simp only [hEdef, (gen_rot_senses phi).2.2.2.2.2, M3.mul, rotZ, rs_cos, rs_sin, Real.cos_neg, Real.sin_neg, rs_zero]; ring
  have he1 : E.a10 = -N.a00 * Real.sin phi + N.a10 * Real.cos phi := by
    simp only [hEdef, (gen_rot_senses phi).2.2.2.2.2, M3.mul, rotZ, rs_cos, rs_sin, Real.cos_neg, Real.sin_neg, rs_zero]; ring
  have he2 : E.a20 = N.a20 := by
    simp only [hEdef, (gen_rot_senses phi).2.2.2.2.2, M3.mul, rotZ, rs_cos, rs_sin, rs_zero, rs_one]; ring
  have hwu : w.x ^ 2 + w.y ^ 2 + w.z ^ 2 = 1 := by
    have hq := qDir_unit theta qaz
    have h1 := Real.sin_sq_add_cos_sq mu
    rw [hw]; simp only [M3.mulVec, M3.transpose, rotX, rs_cos, rs_sin, rs_one, rs_zero]
    linear_combination hq + ((qDir theta qaz).y ^ 2 + (qDir theta qaz).z ^ 2) * h1
  have hp := Real.sin_sq_add_cos_sq phi
  have heu : E.a00 ^ 2 + E.a10 ^ 2 + E.a20 ^ 2 = 1 := by
    rw [he0, he1, he2]; linear_combination hN + (N.a00 ^ 2 + N.a10 ^ 2) * hp
  rw [he0, he2] at *
  set e0 := N.a00 * Real.cos phi + N.a10 * Real.sin phi with he0def
  have hr := hypot_pos_of e0 N.a20 hE
  have hr2 := hypot_sq e0 N.a20
  set r := Scalar.hypot e0 N.a20 with hrdef
  apply allOk_tryAssert
  intro s hs
  rw [hv2] at hs
  obtain ⟨_, hsin⟩ := boundAsin_ok hclip hs
  apply allOk_ok
  intro t ht
  have hrne := hr.ne'
  have hS : r * Real.sin s = -w.z := by rw [hsin]; field_simp
  obtain ⟨chi, hchi, rfl⟩ := List.mem_map.mp ht
  simp only [List.mem_cons, List.not_mem_nil, or_false, rs_atan2, rs_pi] at hchi
  have hz := asin_roots e0 N.a20 r s chi hr hr2 hchi
  rw [hS] at hz
  simp only [neg_neg] at hz
  unfold SampleSpec
  simp only [rs_cos, rs_sin, rs_atan2]
  apply sampleSpec_of_mid
  rw [← hw]
  -- components of ETA·CHI·(PHI·h)
  set a := e0 * Real.cos chi + N.a20 * Real.sin chi with hadef
  have hc := Real.sin_sq_add_cos_sq chi
  have hD : a ^ 2 + E.a10 ^ 2 = w.x ^ 2 + w.y ^ 2 := by
    have : a ^ 2 + (-e0 * Real.sin chi + N.a20 * Real.cos chi) ^ 2 = e0 ^ 2 + N.a20 ^ 2 := by
      rw [hadef]; linear_combination (e0 ^ 2 + N.a20 ^ 2) * hc
    rw [hz] at this
    linarith
  obtain ⟨cx, cy⟩ := rot_solve a E.a10 w.x w.y hD
  rw [hv0, hv1]
  generalize hη : atan2R (w.x * E.a10 - w.y * a) (w.x * a + w.y * E.a10) = η at cx cy ⊢
  rw [he1] at cx cy
  rw [hadef, he0def] at cx cy
  rw [he0def] at hz
  ext
  · simp only [M3.mulVec, M3.mul, rotZ, rotY, rs_cos, rs_sin, rs_one, rs_zero, Real.cos_neg, Real.sin_neg]
    linear_combination cx
  · simp only [M3.mulVec, M3.mul, rotZ, rotY, rs_cos, rs_sin, rs_one, rs_zero, Real.cos_neg, Real.sin_neg]
    linear_combination cy
  · simp only [M3.mulVec, M3.mul, rotZ, rotY, rs_cos, rs_sin, rs_one, rs_zero, Real.cos_neg, Real.sin_neg]
    linear_combination hz

theorem inner_unit (chi phi : ℝ) (h : V3 ℝ) (hh : h.x ^ 2 + h.y ^ 2 + h.z ^ 2 = 1) :
    (inner chi phi h).x ^ 2 + (inner chi phi h).y ^ 2 + (inner chi phi h).z ^ 2 = 1 := by
  rw [inner_comps]
  simp only []
  have h1 := Real.sin_sq_add_cos_sq chi
  have h2 := Real.sin_sq_add_cos_sq phi
  linear_combination hh + ((h.x * Real.cos phi + h.y * Real.sin phi) ^ 2 + h.z ^ 2) * h1 + (h.x ^ 2 + h.y ^ 2) * h2

/-- splitting `Z = MU·ETA·(CHI·PHI)`: the sample relation is `ETA·(CHI·PHI·h) = MUᵀ·q` -/
theorem sampleSpec_of_eta (mu eta chi phi : ℝ) (h q : V3 ℝ)
    (hm : M3.mulVec (rotZ (-eta)) (inner chi phi h) = M3.mulVec (M3.transpose (rotX mu)) q) :
    M3.mulVec (C04.Z mu eta chi phi) h = q := by
  apply sampleSpec_of_inner
  have : outerInv mu eta q = M3.mulVec (M3.transpose (rotZ (-eta))) (M3.mulVec (M3.transpose (rotX mu)) q) := by
    rw [outerInv, M3.mulVec_mul]
  rw [this, ← hm, ← M3.mulVec_mul, (isRot_rotZ _).1, M3.mulVec_id]

/-- **chi + phi given** (`__calc_sample_con_chi_phi`) -/
theorem sampleConChiPhi_sound (chi phi qaz theta : ℝ) (N : M3 ℝ) (hN : N.a00 ^ 2 + N.a10 ^ 2 + N.a20 ^ 2 = 1)
    (hr0 : Real.sin theta ≠ 0 ∨ -(Real.cos qaz) * Real.cos theta ≠ 0)
    (hclip : |(inner chi phi ⟨N.a00, N.a10, N.a20⟩).z / Real.sqrt (Real.cos qaz * Real.cos qaz * (Real.cos theta * Real.cos theta) + Real.sin theta * Real.sin theta)| ≤ 1) :
    AllOk (SampleSpec ⟨N.a00, N.a10, N.a20⟩ theta qaz) (sampleConChiPhi chi phi qaz theta N) := by
  set g := inner chi phi ⟨N.a00, N.a10, N.a20⟩ with hg
  have hgu := inner_unit chi phi ⟨N.a00, N.a10, N.a20⟩ hN
  rw [← hg] at hgu
  unfold sampleConChiPhi
  simp only []
  set V := M3.mul (M3.mul (Gen.rot_CHI chi) (Gen.rot_PHI phi)) N with hVdef
  have hVc : (⟨V.a00, V.a10, V.a20⟩ : V3 ℝ) = g := by
    rw [hg, inner, hVdef, (gen_rot_senses chi).2.2.1, (gen_rot_senses phi).2.2.2.2.2]
    ext <;> simp only [M3.mulVec, M3.mul] <;> ring
  have hv0 : V.a00 = g.x := congrArg V3.x hVc
  have hv1 : V.a10 = g.y := congrArg V3.y hVc
  have hv2 : V.a20 = g.z := congrArg V3.z hVc
  simp only [rs_cos, rs_sin, rs_atan2, rs_pi]
  have hsq : 0 ≤ Real.cos qaz * Real.cos qaz * (Real.cos theta * Real.cos theta) + Real.sin theta * Real.sin theta := by
    nlinarith [mul_self_nonneg (Real.cos qaz * Real.cos theta), mul_self_nonneg (Real.sin theta)]
  rw [pySqrt_ok hsq]
  simp only [bind, Except.bind]
  -- r = hypot(sin θ, −cos qaz cos θ)
  have hrr : Real.sqrt (Real.cos qaz * Real.cos qaz * (Real.cos theta * Real.cos theta) + Real.sin theta * Real.sin theta)
      = Scalar.hypot (Real.sin theta) (-(Real.cos qaz) * Real.cos theta) := by
    simp only [Scalar.hypot, rs_sqrt]; congr 1; ring
  rw [hrr, hv2]
  rw [hrr] at hclip
  have hr := hypot_pos_of _ _ hr0
  have hr2 := hypot_sq (Real.sin theta) (-(Real.cos qaz) * Real.cos theta)
  set r := Scalar.hypot (Real.sin theta) (-(Real.cos qaz) * Real.cos theta) with hrdef
  apply allOk_tryAssert
  intro s hs
  obtain ⟨_, hsin⟩ := boundAsin_ok hclip hs
  have hrne := hr.ne'
  have hS : r * Real.sin s = g.z := by rw [hsin]; field_simp
  apply allOk_forM'
  intro mu hmu
  simp only [List.mem_cons, List.not_mem_nil, or_false] at hmu
  have hz := asin_roots (Real.sin theta) (-(Real.cos qaz) * Real.cos theta) r s mu hr hr2 hmu
  rw [hS] at hz
  split
  · exact allOk_error _
  · apply allOk_ok
    intro t ht
    simp only [List.mem_singleton] at ht
    subst ht
    unfold SampleSpec
    simp only []
    apply sampleSpec_of_eta
    rw [← hg]
    -- target vector MUᵀ q
    have hm := Real.sin_sq_add_cos_sq mu
    have hq := qDir_unit theta qaz
    set a := Real.cos theta * Real.sin qaz with hadef
    set b := -(Real.cos theta) * Real.sin mu * Real.cos qaz + Real.cos mu * Real.sin theta with hbdef
    have hwz : (M3.mulVec (M3.transpose (rotX mu)) (qDir theta qaz)).z = g.z := by
      simp only [M3.mulVec, M3.transpose, rotX, qDir, rs_cos, rs_sin, rs_one, rs_zero]
      linear_combination (-1 : ℝ) * hz
    have hD : g.x ^ 2 + g.y ^ 2 = a ^ 2 + (-b) ^ 2 := by
      have : a ^ 2 + b ^ 2 + g.z ^ 2 = 1 := by
        have e : g.z = Real.sin theta * Real.sin mu + Real.cos theta * Real.cos qaz * Real.cos mu := by linear_combination hz
        rw [e, hadef, hbdef]
        simp only [qDir] at hq
        linear_combination hq + (Real.sin theta ^ 2 + (Real.cos theta * Real.cos qaz) ^ 2) * hm
      nlinarith [this, hgu]
    obtain ⟨cx, cy⟩ := rot_solve g.x g.y a (-b) hD
    have earg1 : a * g.y - -b * g.x = g.y * a + g.x * b := by ring
    have earg2 : a * g.x + -b * g.y = g.x * a - g.y * b := by ring
    rw [earg1, earg2] at cx cy
    rw [hv0, hv1]
    generalize atan2R (g.y * a + g.x * b) (g.x * a - g.y * b) = η at cx cy ⊢
    ext
    · simp only [M3.mulVec, M3.transpose, rotX, rotZ, qDir, rs_cos, rs_sin, rs_one, rs_zero, Real.cos_neg, Real.sin_neg]
      rw [hadef] at cx
      linear_combination cx
    · simp only [M3.mulVec, M3.transpose, rotX, rotZ, qDir, rs_cos, rs_sin, rs_one, rs_zero, Real.cos_neg, Real.sin_neg]
      rw [hbdef] at cy
      linear_combination cy
    · rw [hwz]
      simp only [M3.mulVec, rotZ, rs_cos, rs_sin, rs_one, rs_zero]
      ring

/-- `acos(bound x)` for an argument inside [-1, 1] -/
theorem boundAcos_ok {x v : ℝ} (hx : |x| ≤ 1) (h : boundAcos x = .ok v) : v = Real.arccos x ∧ Real.cos v = x := by
  obtain ⟨l, u⟩ := abs_le.mp hx
  have hb : bound x = .ok x := by
    have c1 : Scalar.lt (Scalar.one + Scalar.SMALL : ℝ) (Scalar.abs x) = false := by
      simp only [rs_lt, rs_abs, rs_one, Scalar.SMALL, Scalar.ofSci, decide_eq_false_iff_not, not_lt]
      have : (0:ℝ) ≤ OfScientific.ofScientific 1 true 7 := by norm_num
      linarith
    have c2 : Scalar.lt (Scalar.one : ℝ) x = false := by simp only [rs_lt, rs_one, decide_eq_false_iff_not, not_lt]; exact u
    have c3 : Scalar.lt x (-(Scalar.one : ℝ)) = false := by simp only [rs_lt, rs_one, decide_eq_false_iff_not, not_lt]; exact l
    simp only [bound, c1, c2, c3, Bool.false_eq_true, if_false]
  simp only [boundAcos, hb, bind, Except.bind, pyAcos_ok hx, Except.ok.injEq] at h
  subst h
  exact ⟨rfl, Real.cos_arccos l u⟩

/-- the two roots `c + ε`, `−c + ε` (`ε = atan2(p1, p0)`) of `p0 cos t + p1 sin t = r cos c` -/
theorem acos_roots (p0 p1 r c t : ℝ) (hr : 0 < r) (hr2 : p0 ^ 2 + p1 ^ 2 = r ^ 2)
    (ht : t = c + atan2R p1 p0 ∨ t = -c + atan2R p1 p0) :
    p0 * Real.cos t + p1 * Real.sin t = r * Real.cos c := by
  obtain ⟨hce, hse⟩ := atan2_cs p0 p1 r hr hr2
  have hrne := hr.ne'
  have h0 : p0 = r * Real.cos (atan2R p1 p0) := by rw [hce]; field_simp
  have h1 : p1 = r * Real.sin (atan2R p1 p0) := by rw [hse]; field_simp
  have hsc := Real.sin_sq_add_cos_sq (atan2R p1 p0)
  rcases ht with rfl | rfl
  · rw [Real.sin_add, Real.cos_add]
    linear_combination (Real.cos c * Real.cos (atan2R p1 p0) - Real.sin c * Real.sin (atan2R p1 p0)) * h0
      + (Real.sin c * Real.cos (atan2R p1 p0) + Real.cos c * Real.sin (atan2R p1 p0)) * h1 + (r * Real.cos c) * hsc
  · rw [Real.sin_add, Real.cos_add, Real.sin_neg, Real.cos_neg]
    linear_combination (Real.cos c * Real.cos (atan2R p1 p0) + Real.sin c * Real.sin (atan2R p1 p0)) * h0
      + (-Real.sin c * Real.cos (atan2R p1 p0) + Real.cos c * Real.sin (atan2R p1 p0)) * h1 + (r * Real.cos c) * hsc

/-- unit length of `MUᵀ q` -/
theorem muT_unit (mu theta qaz : ℝ) :
    let w := M3.mulVec (M3.transpose (rotX mu)) (qDir theta qaz)
    w.x ^ 2 + w.y ^ 2 + w.z ^ 2 = 1 := by
  have hq := qDir_unit theta qaz
  have h1 := Real.sin_sq_add_cos_sq mu
  simp only [M3.mulVec, M3.transpose, rotX, rs_cos, rs_sin, rs_one, rs_zero]
  linear_combination hq + ((qDir theta qaz).y ^ 2 + (qDir theta qaz).z ^ 2) * h1

/-- **mu + chi given** (`__calc_sample_con_mu_chi`) -/
theorem sampleConMuChi_sound (mu chi qaz theta : ℝ) (N : M3 ℝ) (hN : N.a00 ^ 2 + N.a10 ^ 2 + N.a20 ^ 2 = 1)
    (hclip : |(N.a20 * Real.cos chi - (Real.cos mu * Real.cos qaz * Real.cos theta + Real.sin mu * Real.sin theta)) /
              (Real.sin chi * Scalar.hypot N.a10 N.a00)| ≤ 1)
    (hgen : Scalar.isSmall (Real.arccos ((N.a20 * Real.cos chi - (Real.cos mu * Real.cos qaz * Real.cos theta + Real.sin mu * Real.sin theta)) /
              (Real.sin chi * Scalar.hypot N.a10 N.a00))) = false) :
    AllOk (SampleSpec ⟨N.a00, N.a10, N.a20⟩ theta qaz) (sampleConMuChi mu chi qaz theta N) := by
  unfold sampleConMuChi
  simp only [rs_cos, rs_sin, rs_atan2]
  split
  · exact allOk_error _
  · rename_i hschi
    split
    · exact allOk_error _
    · rename_i hAB
      have hsne : Real.sin chi ≠ 0 := not_small_ne_zero (by simpa using hschi)
      have hr0 : N.a00 ≠ 0 ∨ N.a10 ≠ 0 := by
        by_contra hc; push_neg at hc
        apply hAB; simp [hc.1, hc.2, isSmall_real]; norm_num
      have hr := hypot_pos_of N.a00 N.a10 hr0
      have hr2 := hypot_sq N.a00 N.a10
      have hhy : Scalar.hypot N.a10 N.a00 = Scalar.hypot N.a00 N.a10 := by simp only [Scalar.hypot, rs_sqrt]; congr 1; ring
      rw [hhy] at hclip hgen ⊢
      set r := Scalar.hypot N.a00 N.a10 with hrdef
      set V20 := Real.cos mu * Real.cos qaz * Real.cos theta + Real.sin mu * Real.sin theta with hV20
      apply allOk_tryAssert
      intro c hc
      obtain ⟨hcv, hcos⟩ := boundAcos_ok hclip hc
      rw [← hcv] at hgen
      rw [if_neg (by rw [hgen]; simp)]
      apply allOk_forM'
      intro phi hphi
      simp only [List.mem_cons, List.not_mem_nil, or_false] at hphi
      have ha := acos_roots N.a00 N.a10 r c phi hr hr2 hphi
      rw [hcos] at ha
      have hrne := hr.ne'
      have ha' : (N.a00 * Real.cos phi + N.a10 * Real.sin phi) * Real.sin chi = N.a20 * Real.cos chi - V20 := by
        rw [ha]; field_simp
      split
      · exact allOk_error _
      · apply allOk_ok
        intro t ht
        simp only [List.mem_singleton] at ht
        subst ht
        unfold SampleSpec
        simp only []
        apply sampleSpec_of_mid
        have hwu := muT_unit mu theta qaz
        simp only [] at hwu
        set w := M3.mulVec (M3.transpose (rotX mu)) (qDir theta qaz) with hw
        have hwx : w.x = Real.sin qaz * Real.cos theta := by
          rw [hw]; simp only [M3.mulVec, M3.transpose, rotX, qDir, rs_cos, rs_sin, rs_one, rs_zero]; ring
        have hwy : w.y = -(-(Real.cos qaz) * Real.cos theta * Real.sin mu + Real.cos mu * Real.sin theta) := by
          rw [hw]; simp only [M3.mulVec, M3.transpose, rotX, qDir, rs_cos, rs_sin, rs_one, rs_zero]; ring
        have hwz : w.z = V20 := by
          rw [hw, hV20]; simp only [M3.mulVec, M3.transpose, rotX, qDir, rs_cos, rs_sin, rs_one, rs_zero]; ring
        set a := N.a00 * Real.cos phi + N.a10 * Real.sin phi with hadef
        set b' := N.a10 * Real.cos phi - N.a00 * Real.sin phi with hbdef
        set c0 := N.a00 * Real.cos chi * Real.cos phi + N.a10 * Real.cos chi * Real.sin phi + N.a20 * Real.sin chi with hc0def
        have hp := Real.sin_sq_add_cos_sq phi
        have hx := Real.sin_sq_add_cos_sq chi
        have hzc : -a * Real.sin chi + N.a20 * Real.cos chi = w.z := by rw [hwz]; linear_combination (-1 : ℝ) * ha'
        have hc0 : c0 = a * Real.cos chi + N.a20 * Real.sin chi := by rw [hc0def, hadef]; ring
        have hD : c0 ^ 2 + b' ^ 2 = w.x ^ 2 + w.y ^ 2 := by
          have e1 : c0 ^ 2 + (-a * Real.sin chi + N.a20 * Real.cos chi) ^ 2 = a ^ 2 + N.a20 ^ 2 := by
            rw [hc0]; linear_combination (a ^ 2 + N.a20 ^ 2) * hx
          have e2 : a ^ 2 + b' ^ 2 = N.a00 ^ 2 + N.a10 ^ 2 := by
            rw [hadef, hbdef]; linear_combination (N.a00 ^ 2 + N.a10 ^ 2) * hp
          rw [hzc] at e1
          linear_combination e1 + e2 + hN - hwu
        obtain ⟨cx, cy⟩ := rot_solve c0 b' w.x w.y hD
        have earg1 : w.x * b' - w.y * c0 = c0 * (-(Real.cos qaz) * Real.cos theta * Real.sin mu + Real.cos mu * Real.sin theta) + b' * (Real.sin qaz * Real.cos theta) := by
          rw [hwx, hwy]; ring
        have earg2 : w.x * c0 + w.y * b' = c0 * (Real.sin qaz * Real.cos theta) - b' * (-(Real.cos qaz) * Real.cos theta * Real.sin mu + Real.cos mu * Real.sin theta) := by
          rw [hwx, hwy]; ring
        rw [earg1, earg2] at cx cy
        generalize atan2R (c0 * (-(Real.cos qaz) * Real.cos theta * Real.sin mu + Real.cos mu * Real.sin theta) + b' * (Real.sin qaz * Real.cos theta))
          (c0 * (Real.sin qaz * Real.cos theta) - b' * (-(Real.cos qaz) * Real.cos theta * Real.sin mu + Real.cos mu * Real.sin theta)) = η at cx cy ⊢
        rw [hc0def, hbdef] at cx cy
        rw [hadef] at hzc
        ext
        · simp only [M3.mulVec, M3.mul, rotZ, rotY, rs_cos, rs_sin, rs_one, rs_zero, Real.cos_neg, Real.sin_neg]
          linear_combination cx
        · simp only [M3.mulVec, M3.mul, rotZ, rotY, rs_cos, rs_sin, rs_one, rs_zero, Real.cos_neg, Real.sin_neg]
          linear_combination cy
        · simp only [M3.mulVec, M3.mul, rotZ, rotY, rs_cos, rs_sin, rs_one, rs_zero, Real.cos_neg, Real.sin_neg]
          linear_combination hzc

/-! ## detector + reference + one sample angle: the full orientation equation `Z · N_phi = N_lab` -/

/-- for a proper rotation the adjugate is the transpose (cofactor identities) -/
theorem adj_eq_transpose {R : M3 ℝ} (h : IsRot R) : M3.adj R = M3.transpose R := by
  have hinv : M3.inv R = M3.transpose R := by
    have h1 : M3.det R ≠ 0 := by rw [h.2]; norm_num
    have := congrArg (fun m => M3.mul m (M3.inv R)) h.1
    simp only [M3.mul_assoc', M3.mul_inv_cancel R h1, M3.mul_id, M3.id_mul] at this
    exact this.symm
  have : M3.inv R = M3.adj R := by ext <;> simp [M3.inv, M3.smul, h.2]
  rw [← this, hinv]

/-- the product of the three inner circles `ETA·CHI·PHI` -/
def ecp (eta chi phi : ℝ) : M3 ℝ := M3.mul (M3.mul (rotZ (-eta)) (rotY chi)) (rotZ (-phi))

theorem ecp_entries (eta chi phi : ℝ) : ecp eta chi phi =
    ⟨Real.cos eta * Real.cos chi * Real.cos phi - Real.sin eta * Real.sin phi, Real.cos eta * Real.cos chi * Real.sin phi + Real.sin eta * Real.cos phi, Real.cos eta * Real.sin chi,
     -Real.sin eta * Real.cos chi * Real.cos phi - Real.cos eta * Real.sin phi, -Real.sin eta * Real.cos chi * Real.sin phi + Real.cos eta * Real.cos phi, -Real.sin eta * Real.sin chi,
     -Real.sin chi * Real.cos phi, -Real.sin chi * Real.sin phi, Real.cos chi⟩ := by
  ext <;> simp only [ecp, M3.mul, rotZ, rotY, rs_cos, rs_sin, rs_one, rs_zero, Real.cos_neg, Real.sin_neg] <;> ring

/-- ZYZ Euler extraction: a proper rotation `V` with `V22 = cos χ`, `sin χ ≠ 0` and the azimuths read off its last row and column is `ETA·CHI·PHI` -/
theorem ecp_of_euler (V : M3 ℝ) (hV : IsRot V) (eta chi phi : ℝ) (hs : Real.sin chi ≠ 0)
    (h22 : V.a22 = Real.cos chi)
    (h20 : V.a20 = -Real.sin chi * Real.cos phi) (h21 : V.a21 = -Real.sin chi * Real.sin phi)
    (h02 : V.a02 = Real.cos eta * Real.sin chi) (h12 : V.a12 = -Real.sin eta * Real.sin chi) :
    ecp eta chi phi = V := by
  have hadj := adj_eq_transpose hV
  have c00 := congrArg M3.a00 hadj; have c01 := congrArg M3.a01 hadj
  have c10 := congrArg M3.a10 hadj; have c11 := congrArg M3.a11 hadj
  simp only [M3.adj, M3.transpose] at c00 c01 c10 c11
  -- c00 : V11 V22 − V12 V21 = V00 ; c01 : V02 V21 − V01 V22 = V10 ; c10 : V12 V20 − V10 V22 = V01 ; c11 : V00 V22 − V02 V20 = V11
  have hsc := Real.sin_sq_add_cos_sq chi
  have hs2 : Real.sin chi ^ 2 ≠ 0 := pow_ne_zero 2 hs
  simp only [h22, h20, h21, h02, h12] at c00 c01 c10 c11
  have e00 : V.a00 = Real.cos eta * Real.cos chi * Real.cos phi - Real.sin eta * Real.sin phi := by
    have : V.a00 * Real.sin chi ^ 2 = (Real.cos eta * Real.cos chi * Real.cos phi - Real.sin eta * Real.sin phi) * Real.sin chi ^ 2 := by
      linear_combination (-1 : ℝ) * c00 - Real.cos chi * c11 + V.a00 * hsc
    exact mul_right_cancel₀ hs2 this
  have e11 : V.a11 = -Real.sin eta * Real.cos chi * Real.sin phi + Real.cos eta * Real.cos phi := by
    have : V.a11 * Real.sin chi ^ 2 = (-Real.sin eta * Real.cos chi * Real.sin phi + Real.cos eta * Real.cos phi) * Real.sin chi ^ 2 := by
      linear_combination (-1 : ℝ) * c11 - Real.cos chi * c00 + V.a11 * hsc
    exact mul_right_cancel₀ hs2 this
  have e01 : V.a01 = Real.cos eta * Real.cos chi * Real.sin phi + Real.sin eta * Real.cos phi := by
    have : V.a01 * Real.sin chi ^ 2 = (Real.cos eta * Real.cos chi * Real.sin phi + Real.sin eta * Real.cos phi) * Real.sin chi ^ 2 := by
      linear_combination (-1 : ℝ) * c10 + Real.cos chi * c01 + V.a01 * hsc
    exact mul_right_cancel₀ hs2 this
  have e10 : V.a10 = -Real.sin eta * Real.cos chi * Real.cos phi - Real.cos eta * Real.sin phi := by
    have : V.a10 * Real.sin chi ^ 2 = (-Real.sin eta * Real.cos chi * Real.cos phi - Real.cos eta * Real.sin phi) * Real.sin chi ^ 2 := by
      linear_combination (-1 : ℝ) * c01 + Real.cos chi * c10 + V.a10 * hsc
    exact mul_right_cancel₀ hs2 this
  rw [ecp_entries]
  ext <;> simp only [] <;> first | exact e00.symm | exact e01.symm | exact e10.symm | exact e11.symm | exact h02.symm | exact h12.symm | exact h20.symm | exact h21.symm | exact h22.symm

/-- full sample relation: `Z · N_phi = N_lab` -/
def FullSpec (N_lab N_phi : M3 ℝ) (t : STuple ℝ) : Prop := M3.mul (C04.Z t.1 t.2.1 t.2.2.1 t.2.2.2) N_phi = N_lab

theorem Z_eq_mu_ecp (mu eta chi phi : ℝ) : C04.Z mu eta chi phi = M3.mul (rotX mu) (ecp eta chi phi) := by
  simp only [C04.Z, ecp, M3.mul_assoc']

theorem isRot_entries_le {V : M3 ℝ} (hV : IsRot V) : V.a20 ^ 2 + V.a21 ^ 2 + V.a22 ^ 2 = 1 ∧ V.a02 ^ 2 + V.a12 ^ 2 + V.a22 ^ 2 = 1 := by
  have h1 := congrArg M3.a22 hV.1
  have h2 := congrArg M3.a22 (rot_mul_transpose hV)
  simp only [M3.mul, M3.transpose, M3.id, rs_one] at h1 h2
  constructor
  · linear_combination h2
  · linear_combination h1

/-- **mu given, detector + reference mode** (`__calc_sample_con_mu`, generic branch `sin χ ≠ 0`): every returned tuple satisfies `Z·N_phi = N_lab` -/
theorem sampleConMu_sound (mu : ℝ) (N_lab N_phi : M3 ℝ) (hl : IsRot N_lab) (hp : IsRot N_phi)
    (hgen : Scalar.isSmall (Real.sin (Real.arccos (M3.mul (M3.mul (M3.transpose (rotX mu)) N_lab) (M3.transpose N_phi)).a22)) = false) :
    AllOk (FullSpec N_lab N_phi) (sampleConMu mu N_lab N_phi) := by
  unfold sampleConMu
  simp only []
  rw [(gen_rot_senses mu).1, inv_rotX]
  set V := M3.mul (M3.mul (M3.transpose (rotX mu)) N_lab) (M3.transpose N_phi) with hVdef
  have hV : IsRot V := IsRot.mul (IsRot.mul (C04.isRot_transpose (isRot_rotX mu)) hl) (C04.isRot_transpose hp)
  obtain ⟨hrow, hcol⟩ := isRot_entries_le hV
  have h22 : |V.a22| ≤ 1 := by
    apply abs_le_of_sq_le_sq _ (by norm_num)
    nlinarith [sq_nonneg V.a20, sq_nonneg V.a21]
  apply allOk_catchAssert
  apply allOk_bind
  intro c hc
  obtain ⟨hcv, hcos⟩ := boundAcos_ok h22 hc
  rw [← hcv] at hgen
  simp only [rs_sin, rs_cos, rs_atan2]
  rw [if_neg (by rw [hgen]; simp)]
  apply allOk_ok
  intro t ht
  obtain ⟨chi, hchi, rfl⟩ := List.mem_map.mp ht
  simp only [List.mem_cons, List.not_mem_nil, or_false] at hchi
  have hcc : Real.cos chi = V.a22 := by rcases hchi with rfl | rfl <;> simp [hcos]
  have hsm : Scalar.isSmall (Real.sin chi) = false := by
    rcases hchi with rfl | rfl
    · exact hgen
    · rw [Real.sin_neg, isSmall_real] at *; simpa using hgen
  have hsne := not_small_ne_zero hsm
  obtain ⟨hsg, hsg2⟩ := sign_facts (Real.sin chi) hsm
  set sg := (Scalar.sign (Real.sin chi) : ℝ) with hsgdef
  have habs : 0 < |Real.sin chi| := abs_pos.mpr hsne
  have hsc := Real.sin_sq_add_cos_sq chi
  have hsqabs : |Real.sin chi| ^ 2 = Real.sin chi ^ 2 := sq_abs _
  have hsin : Real.sin chi = sg * |Real.sin chi| := by rw [← hsg]; linear_combination (-(Real.sin chi)) * hsg2
  generalize |Real.sin chi| = A at habs hsqabs hsin hsg
  have hR1 : (-sg * V.a20) ^ 2 + (-sg * V.a21) ^ 2 = A ^ 2 := by
    rw [hsqabs]; rw [hcc] at hsc
    linear_combination (V.a20 ^ 2 + V.a21 ^ 2) * hsg2 + hrow - hsc
  have hR2 : (sg * V.a02) ^ 2 + (-sg * V.a12) ^ 2 = A ^ 2 := by
    rw [hsqabs]; rw [hcc] at hsc
    linear_combination (V.a02 ^ 2 + V.a12 ^ 2) * hsg2 + hcol - hsc
  obtain ⟨hcphi, hsphi⟩ := atan2_cs (-sg * V.a20) (-sg * V.a21) A habs hR1
  obtain ⟨hceta, hseta⟩ := atan2_cs (sg * V.a02) (-sg * V.a12) A habs hR2
  have habsne := habs.ne'
  unfold FullSpec
  simp only []
  have hecp : ecp (atan2R (-sg * V.a12) (sg * V.a02)) chi (atan2R (-sg * V.a21) (-sg * V.a20)) = V := by
    apply ecp_of_euler V hV _ _ _ hsne hcc.symm
    · rw [hcphi, hsin]; field_simp; linear_combination (-V.a20) * hsg2
    · rw [hsphi, hsin]; field_simp; linear_combination (-V.a21) * hsg2
    · rw [hceta, hsin]; field_simp; linear_combination (-V.a02) * hsg2
    · rw [hseta, hsin]; field_simp; linear_combination (-V.a12) * hsg2
  rw [Z_eq_mu_ecp, hecp, hVdef]
  simp only [M3.mul_assoc']
  rw [hp.1, M3.mul_id, ← M3.mul_assoc', rot_mul_transpose (isRot_rotX mu), M3.id_mul]

/-- the product of the three outer circles `MU·ETA·CHI` -/
def mec (mu eta chi : ℝ) : M3 ℝ := M3.mul (M3.mul (rotX mu) (rotZ (-eta))) (rotY chi)

theorem mec_entries (mu eta chi : ℝ) : mec mu eta chi =
    ⟨Real.cos eta * Real.cos chi, Real.sin eta, Real.cos eta * Real.sin chi,
     -Real.cos mu * Real.sin eta * Real.cos chi + Real.sin mu * Real.sin chi, Real.cos mu * Real.cos eta, -Real.cos mu * Real.sin eta * Real.sin chi - Real.sin mu * Real.cos chi,
     -Real.sin mu * Real.sin eta * Real.cos chi - Real.cos mu * Real.sin chi, Real.sin mu * Real.cos eta, -Real.sin mu * Real.sin eta * Real.sin chi + Real.cos mu * Real.cos chi⟩ := by
  ext <;> simp only [mec, M3.mul, rotX, rotZ, rotY, rs_cos, rs_sin, rs_one, rs_zero, Real.cos_neg, Real.sin_neg] <;> ring

/-- XZY Euler extraction: a proper rotation with `V01 = sin η`, `cos η ≠ 0` and the azimuths read off its first row and second column is `MU·ETA·CHI` -/
theorem mec_of_euler (V : M3 ℝ) (hV : IsRot V) (mu eta chi : ℝ) (hc : Real.cos eta ≠ 0)
    (h01 : V.a01 = Real.sin eta)
    (h00 : V.a00 = Real.cos eta * Real.cos chi) (h02 : V.a02 = Real.cos eta * Real.sin chi)
    (h11 : V.a11 = Real.cos mu * Real.cos eta) (h21 : V.a21 = Real.sin mu * Real.cos eta) :
    mec mu eta chi = V := by
  have hadj := adj_eq_transpose hV
  have d01 := congrArg M3.a01 hadj; have d22 := congrArg M3.a22 hadj
  have d21 := congrArg M3.a21 hadj; have d02 := congrArg M3.a02 hadj
  simp only [M3.adj, M3.transpose] at d01 d22 d21 d02
  -- d01 : V02 V21 − V01 V22 = V10 ; d22 : V00 V11 − V01 V10 = V22 ; d21 : V01 V20 − V00 V21 = V12 ; d02 : V01 V12 − V02 V11 = V20
  have hsc := Real.sin_sq_add_cos_sq eta
  have hc2 : Real.cos eta ^ 2 ≠ 0 := pow_ne_zero 2 hc
  simp only [h01, h00, h02, h11, h21] at d01 d22 d21 d02
  have e10 : V.a10 = -Real.cos mu * Real.sin eta * Real.cos chi + Real.sin mu * Real.sin chi := by
    have : V.a10 * Real.cos eta ^ 2 = (-Real.cos mu * Real.sin eta * Real.cos chi + Real.sin mu * Real.sin chi) * Real.cos eta ^ 2 := by
      linear_combination (-1 : ℝ) * d01 + Real.sin eta * d22 + V.a10 * hsc
    exact mul_right_cancel₀ hc2 this
  have e22 : V.a22 = -Real.sin mu * Real.sin eta * Real.sin chi + Real.cos mu * Real.cos chi := by
    have : V.a22 * Real.cos eta ^ 2 = (-Real.sin mu * Real.sin eta * Real.sin chi + Real.cos mu * Real.cos chi) * Real.cos eta ^ 2 := by
      linear_combination (-1 : ℝ) * d22 + Real.sin eta * d01 + V.a22 * hsc
    exact mul_right_cancel₀ hc2 this
  have e12 : V.a12 = -Real.cos mu * Real.sin eta * Real.sin chi - Real.sin mu * Real.cos chi := by
    have : V.a12 * Real.cos eta ^ 2 = (-Real.cos mu * Real.sin eta * Real.sin chi - Real.sin mu * Real.cos chi) * Real.cos eta ^ 2 := by
      linear_combination (-1 : ℝ) * d21 - Real.sin eta * d02 + V.a12 * hsc
    exact mul_right_cancel₀ hc2 this
  have e20 : V.a20 = -Real.sin mu * Real.sin eta * Real.cos chi - Real.cos mu * Real.sin chi := by
    have : V.a20 * Real.cos eta ^ 2 = (-Real.sin mu * Real.sin eta * Real.cos chi - Real.cos mu * Real.sin chi) * Real.cos eta ^ 2 := by
      linear_combination (-1 : ℝ) * d02 - Real.sin eta * d21 + V.a20 * hsc
    exact mul_right_cancel₀ hc2 this
  rw [mec_entries]
  ext <;> simp only [] <;> first | exact h00.symm | exact h01.symm | exact h02.symm | exact e10.symm | exact h11.symm | exact e12.symm | exact e20.symm | exact h21.symm | exact e22.symm

theorem Z_eq_mec_phi (mu eta chi phi : ℝ) : C04.Z mu eta chi phi = M3.mul (mec mu eta chi) (rotZ (-phi)) := by
  simp only [C04.Z, mec]

theorem inv_of_isRot' {r : M3 ℝ} (h : IsRot r) : M3.inv r = M3.transpose r := by
  have h1 : M3.det r ≠ 0 := by rw [h.2]; norm_num
  have := congrArg (fun m => M3.mul m (M3.inv r)) h.1
  simp only [M3.mul_assoc', M3.mul_inv_cancel r h1, M3.mul_id, M3.id_mul] at this
  exact this.symm

/-- **phi given, detector + reference mode** (`__calc_sample_con_phi`): every returned tuple satisfies `Z·N_phi = N_lab` -/
theorem sampleConPhi_sound (phi : ℝ) (N_lab N_phi : M3 ℝ) (hl : IsRot N_lab) (hp : IsRot N_phi) :
    AllOk (FullSpec N_lab N_phi) (sampleConPhi phi N_lab N_phi) := by
  unfold sampleConPhi
  simp only []
  rw [(gen_rot_senses phi).2.2.2.2.2, inv_of_isRot' hp]
  set V := M3.mul (M3.mul N_lab (M3.transpose N_phi)) (M3.transpose (rotZ (-phi))) with hVdef
  have hV : IsRot V := IsRot.mul (IsRot.mul hl (C04.isRot_transpose hp)) (C04.isRot_transpose (isRot_rotZ _))
  -- first row and second column of V are unit vectors
  have hrow : V.a00 ^ 2 + V.a01 ^ 2 + V.a02 ^ 2 = 1 := by
    have := congrArg M3.a00 (rot_mul_transpose hV); simp only [M3.mul, M3.transpose, M3.id, rs_one] at this; linear_combination this
  have hcol : V.a01 ^ 2 + V.a11 ^ 2 + V.a21 ^ 2 = 1 := by
    have := congrArg M3.a11 hV.1; simp only [M3.mul, M3.transpose, M3.id, rs_one] at this; linear_combination this
  have h01 : |V.a01| ≤ 1 := by
    apply abs_le_of_sq_le_sq _ (by norm_num)
    nlinarith [sq_nonneg V.a00, sq_nonneg V.a02]
  apply allOk_tryAssert
  intro s hs
  obtain ⟨_, hsin0⟩ := boundAsin_ok h01 hs
  simp only [rs_sin, rs_cos, rs_atan2, rs_pi]
  split
  · exact allOk_error _
  · rename_i hsmall
    apply allOk_ok
    intro t ht
    obtain ⟨eta, heta, rfl⟩ := List.mem_map.mp ht
    simp only [List.mem_cons, List.not_mem_nil, or_false] at heta
    have hse : Real.sin eta = V.a01 := by rcases heta with rfl | rfl <;> simp [hsin0, Real.sin_pi_sub]
    have hsm : Scalar.isSmall (Real.cos eta) = false := by
      have h0 : Scalar.isSmall (Real.cos s) = false := by simpa using hsmall
      rcases heta with rfl | rfl
      · exact h0
      · rw [Real.cos_pi_sub, isSmall_real] at *; simpa using h0
    have hcne := not_small_ne_zero hsm
    obtain ⟨hsg, hsg2⟩ := sign_facts (Real.cos eta) hsm
    set sg := (Scalar.sign (Real.cos eta) : ℝ) with hsgdef
    have habs : 0 < |Real.cos eta| := abs_pos.mpr hcne
    have hsc := Real.sin_sq_add_cos_sq eta
    have hsqabs : |Real.cos eta| ^ 2 = Real.cos eta ^ 2 := sq_abs _
    have hcos : Real.cos eta = sg * |Real.cos eta| := by rw [← hsg]; linear_combination (-(Real.cos eta)) * hsg2
    generalize |Real.cos eta| = A at habs hsqabs hcos hsg
    have hR1 : (sg * V.a11) ^ 2 + (sg * V.a21) ^ 2 = A ^ 2 := by
      rw [hsqabs]; rw [hse] at hsc
      linear_combination (V.a11 ^ 2 + V.a21 ^ 2) * hsg2 + hcol - hsc
    have hR2 : (sg * V.a00) ^ 2 + (sg * V.a02) ^ 2 = A ^ 2 := by
      rw [hsqabs]; rw [hse] at hsc
      linear_combination (V.a00 ^ 2 + V.a02 ^ 2) * hsg2 + hrow - hsc
    obtain ⟨hcmu, hsmu⟩ := atan2_cs (sg * V.a11) (sg * V.a21) A habs hR1
    obtain ⟨hcchi, hschi⟩ := atan2_cs (sg * V.a00) (sg * V.a02) A habs hR2
    have habsne := habs.ne'
    unfold FullSpec
    simp only []
    have hmec : mec (atan2R (sg * V.a21) (sg * V.a11)) eta (atan2R (sg * V.a02) (sg * V.a00)) = V := by
      apply mec_of_euler V hV _ _ _ hcne hse.symm
      · rw [hcchi, hcos]; field_simp; linear_combination (-V.a00) * hsg2
      · rw [hschi, hcos]; field_simp; linear_combination (-V.a02) * hsg2
      · rw [hcmu, hcos]; field_simp; linear_combination (-V.a11) * hsg2
      · rw [hsmu, hcos]; field_simp; linear_combination (-V.a21) * hsg2
    rw [Z_eq_mec_phi, hmec, hVdef]
    simp only [M3.mul_assoc']
    rw [← M3.mul_assoc' (M3.transpose (rotZ (-phi))), (isRot_rotZ _).1, M3.id_mul, hp.1, M3.mul_id]

/-- two proper rotations that agree on their first row and third column (crossing entry not ±1) are equal -/
theorem rot_eq_of_row0_col2 (A B : M3 ℝ) (hA : IsRot A) (hB : IsRot B) (hne : A.a02 ^ 2 ≠ 1)
    (h00 : A.a00 = B.a00) (h01 : A.a01 = B.a01) (h02 : A.a02 = B.a02) (h12 : A.a12 = B.a12) (h22 : A.a22 = B.a22) : A = B := by
  have key : ∀ M : M3 ℝ, IsRot M →
      M.a10 * (1 - M.a02 ^ 2) = -M.a02 * M.a00 * M.a12 - M.a01 * M.a22 ∧
      M.a11 * (1 - M.a02 ^ 2) = M.a00 * M.a22 - M.a02 * M.a01 * M.a12 ∧
      M.a21 = M.a02 * M.a10 - M.a00 * M.a12 ∧ M.a20 = M.a01 * M.a12 - M.a02 * M.a11 := by
    intro M hM
    have hadj := adj_eq_transpose hM
    have d12 := congrArg M3.a12 hadj; have d01 := congrArg M3.a01 hadj
    have d11 := congrArg M3.a11 hadj; have d02 := congrArg M3.a02 hadj
    simp only [M3.adj, M3.transpose] at d12 d01 d11 d02
    refine ⟨?_, ?_, ?_, ?_⟩
    · linear_combination (-1 : ℝ) * d01 - M.a02 * d12
    · linear_combination (-1 : ℝ) * d11 + M.a02 * d02
    · linear_combination (-1 : ℝ) * d12
    · linear_combination (-1 : ℝ) * d02
  obtain ⟨a1, a2, a3, a4⟩ := key A hA
  obtain ⟨b1, b2, b3, b4⟩ := key B hB
  have hd : (1 - A.a02 ^ 2) ≠ 0 := by intro h; apply hne; linarith
  simp only [← h00, ← h01, ← h02, ← h12, ← h22] at b1 b2 b3 b4
  have e10 : A.a10 = B.a10 := mul_right_cancel₀ hd (by rw [a1, b1])
  have e11 : A.a11 = B.a11 := mul_right_cancel₀ hd (by rw [a2, b2])
  have e21 : A.a21 = B.a21 := by rw [a3, b3, e10]
  have e20 : A.a20 = B.a20 := by rw [a4, b4, e11]
  ext <;> assumption

/-- `__calc_sample_from_chi_eta`: with chi and eta consistent with the third entry of the first row, mu and phi are fixed by `atan2` and the
    whole goniometer rotation equals the required `Z` -/
theorem sampleFromChiEta_sound (chi eta : ℝ) (Zm : M3 ℝ) (hZ : IsRot Zm) (h02 : Zm.a02 = Real.cos eta * Real.sin chi) (hne : Zm.a02 ^ 2 ≠ 1) :
    AllOk (fun t : STuple ℝ => C04.Z t.1 t.2.1 t.2.2.1 t.2.2.2 = Zm) (sampleFromChiEta chi eta Zm) := by
  unfold sampleFromChiEta
  simp only [rs_sin, rs_cos, rs_atan2]
  split
  · exact allOk_error _
  · apply allOk_ok
    intro t ht
    simp only [List.mem_singleton] at ht
    subst ht
    simp only []
    have hse := Real.sin_sq_add_cos_sq eta
    have hsx := Real.sin_sq_add_cos_sq chi
    have hrow : Zm.a00 ^ 2 + Zm.a01 ^ 2 + Zm.a02 ^ 2 = 1 := by
      have := congrArg M3.a00 (rot_mul_transpose hZ); simp only [M3.mul, M3.transpose, M3.id, rs_one] at this; linear_combination this
    have hcol : Zm.a02 ^ 2 + Zm.a12 ^ 2 + Zm.a22 ^ 2 = 1 := by
      have := congrArg M3.a22 hZ.1; simp only [M3.mul, M3.transpose, M3.id, rs_one] at this; linear_combination this
    -- mu: (v, u) ↦ (Z22, Z12) with u = −sin η sin χ, v = cos χ
    have hD1 : Real.cos chi ^ 2 + (-Real.sin eta * Real.sin chi) ^ 2 = Zm.a22 ^ 2 + Zm.a12 ^ 2 := by
      rw [h02] at hcol
      linear_combination (-1 : ℝ) * hcol + (Real.sin chi ^ 2) * hse + hsx
    obtain ⟨m1, m2⟩ := rot_solve (Real.cos chi) (-Real.sin eta * Real.sin chi) Zm.a22 Zm.a12 hD1
    have em1 : Zm.a22 * (-Real.sin eta * Real.sin chi) - Zm.a12 * Real.cos chi = -(Zm.a22 * Real.sin eta * Real.sin chi + Zm.a12 * Real.cos chi) := by ring
    have em2 : Zm.a22 * Real.cos chi + Zm.a12 * (-Real.sin eta * Real.sin chi) = -(-Zm.a22 * Real.cos chi + Zm.a12 * Real.sin eta * Real.sin chi) := by ring
    rw [em1, em2] at m1 m2
    -- phi: (sin η, cos η cos χ) ↦ (Z01, Z00)
    have hD2 : Real.sin eta ^ 2 + (Real.cos eta * Real.cos chi) ^ 2 = Zm.a01 ^ 2 + Zm.a00 ^ 2 := by
      rw [h02] at hrow
      linear_combination (-1 : ℝ) * hrow + (Real.cos eta ^ 2) * hsx + hse
    obtain ⟨p1, p2⟩ := rot_solve (Real.sin eta) (Real.cos eta * Real.cos chi) Zm.a01 Zm.a00 hD2
    have ep1 : Zm.a01 * (Real.cos eta * Real.cos chi) - Zm.a00 * Real.sin eta = Zm.a01 * Real.cos eta * Real.cos chi - Zm.a00 * Real.sin eta := by ring
    have ep2 : Zm.a01 * Real.sin eta + Zm.a00 * (Real.cos eta * Real.cos chi) = Zm.a01 * Real.sin eta + Zm.a00 * Real.cos eta * Real.cos chi := by ring
    rw [ep1, ep2] at p1 p2
    generalize atan2R (-(Zm.a22 * Real.sin eta * Real.sin chi + Zm.a12 * Real.cos chi)) (-(-Zm.a22 * Real.cos chi + Zm.a12 * Real.sin eta * Real.sin chi)) = mu at m1 m2 ⊢
    generalize atan2R (Zm.a01 * Real.cos eta * Real.cos chi - Zm.a00 * Real.sin eta) (Zm.a01 * Real.sin eta + Zm.a00 * Real.cos eta * Real.cos chi) = phi at p1 p2 ⊢
    apply rot_eq_of_row0_col2 _ _ (C04.isRot_Z mu eta chi phi) hZ
    · rw [Z_eq_mu_ecp, ecp_entries]; simp only [M3.mul, rotX, rs_one, rs_zero]; rw [h02] at hne; simpa using hne
    all_goals (rw [Z_eq_mu_ecp, ecp_entries]; simp only [M3.mul, rotX, rs_one, rs_zero, rs_cos, rs_sin])
    · linear_combination p2
    · linear_combination p1
    · linear_combination (-1 : ℝ) * h02
    · linear_combination m2
    · linear_combination m1

theorem fullSpec_of_Z (N_lab N_phi : M3 ℝ) (hp : IsRot N_phi) (t : STuple ℝ)
    (h : C04.Z t.1 t.2.1 t.2.2.1 t.2.2.2 = M3.mul N_lab (M3.transpose N_phi)) : FullSpec N_lab N_phi t := by
  unfold FullSpec
  rw [h, M3.mul_assoc', hp.1, M3.mul_id]

/-- **chi given, detector + reference mode** (`__calc_sample_con_chi`) -/
theorem sampleConChi_sound (chi : ℝ) (N_lab N_phi : M3 ℝ) (hl : IsRot N_lab) (hp : IsRot N_phi)
    (hclip : |(M3.mul N_lab (M3.transpose N_phi)).a02 / Real.sin chi| ≤ 1)
    (hne : (M3.mul N_lab (M3.transpose N_phi)).a02 ^ 2 ≠ 1) :
    AllOk (FullSpec N_lab N_phi) (sampleConChi chi N_lab N_phi) := by
  unfold sampleConChi
  simp only [rs_sin]
  split
  · exact allOk_error _
  · rename_i hs
    have hsne : Real.sin chi ≠ 0 := not_small_ne_zero (by simpa using hs)
    set Zm := M3.mul N_lab (M3.transpose N_phi) with hZm
    have hZ : IsRot Zm := IsRot.mul hl (C04.isRot_transpose hp)
    apply allOk_tryAssert
    intro c hc
    obtain ⟨_, hcos⟩ := boundAcos_ok hclip hc
    apply allOk_forM'
    intro eta heta
    simp only [List.mem_cons, List.not_mem_nil, or_false] at heta
    have hce : Real.cos eta = Zm.a02 / Real.sin chi := by rcases heta with rfl | rfl <;> simp [hcos]
    have h02 : Zm.a02 = Real.cos eta * Real.sin chi := by rw [hce]; field_simp
    exact allOk_mono (sampleFromChiEta_sound chi eta Zm hZ h02 hne) (fun t ht => fullSpec_of_Z N_lab N_phi hp t ht)

/-- **eta given, detector + reference mode** (`__calc_sample_con_eta`) -/
theorem sampleConEta_sound (eta : ℝ) (N_lab N_phi : M3 ℝ) (hl : IsRot N_lab) (hp : IsRot N_phi)
    (hclip : |(M3.mul N_lab (M3.transpose N_phi)).a02 / Real.cos eta| ≤ 1)
    (hne : (M3.mul N_lab (M3.transpose N_phi)).a02 ^ 2 ≠ 1) :
    AllOk (FullSpec N_lab N_phi) (sampleConEta eta N_lab N_phi) := by
  unfold sampleConEta
  simp only [rs_cos]
  split
  · exact allOk_error _
  · rename_i hs
    have hcne : Real.cos eta ≠ 0 := not_small_ne_zero (by simpa using hs)
    set Zm := M3.mul N_lab (M3.transpose N_phi) with hZm
    have hZ : IsRot Zm := IsRot.mul hl (C04.isRot_transpose hp)
    apply allOk_tryAssert
    intro c hc
    obtain ⟨_, hsin⟩ := boundAsin_ok hclip hc
    apply allOk_forM'
    intro chi hchi
    simp only [List.mem_cons, List.not_mem_nil, or_false, rs_pi] at hchi
    have hsx : Real.sin chi = Zm.a02 / Real.cos eta := by rcases hchi with rfl | rfl <;> simp [hsin, Real.sin_pi_sub]
    have h02 : Zm.a02 = Real.cos eta * Real.sin chi := by rw [hsx]; field_simp
    exact allOk_mono (sampleFromChiEta_sound chi eta Zm hZ h02 hne) (fun t ht => fullSpec_of_Z N_lab N_phi hp t ht)

/-- the full orientation equation contains the sample relation on the first columns -/
theorem sampleSpec_of_fullSpec (N_lab N_phi : M3 ℝ) (theta qaz : ℝ) (t : STuple ℝ)
    (hcol : (⟨N_lab.a00, N_lab.a10, N_lab.a20⟩ : V3 ℝ) = qDir theta qaz) (h : FullSpec N_lab N_phi t) :
    SampleSpec ⟨N_phi.a00, N_phi.a10, N_phi.a20⟩ theta qaz t := by
  unfold FullSpec at h
  unfold SampleSpec
  rw [← hcol, ← h]
  ext <;> simp only [M3.mulVec, M3.mul]

/-- the generic-branch side conditions of the four single-sample solvers (no clipping by `bound`, no gimbal lock) -/
def Samp1Generic (s : Samp1 ℝ) (N_lab N_phi : M3 ℝ) : Prop :=
  match s with
  | .mu v => Scalar.isSmall (Real.sin (Real.arccos (M3.mul (M3.mul (M3.transpose (rotX v)) N_lab) (M3.transpose N_phi)).a22)) = false
  | .phi _ => True
  | .eta v => |(M3.mul N_lab (M3.transpose N_phi)).a02 / Real.cos v| ≤ 1 ∧ (M3.mul N_lab (M3.transpose N_phi)).a02 ^ 2 ≠ 1
  | .chi v => |(M3.mul N_lab (M3.transpose N_phi)).a02 / Real.sin v| ≤ 1 ∧ (M3.mul N_lab (M3.transpose N_phi)).a02 ^ 2 ≠ 1

/-- **detector + reference + one sample angle** (`_calc_remaining_sample_angles`): whenever `_calc_N` delivers a proper rotation whose first
    column is the scattering direction, every returned tuple satisfies the full orientation equation, hence the sample relation -/
theorem remainingSample_sound (s : Samp1 ℝ) (theta alpha qaz : ℝ) (naz : Option ℝ) (N_phi : M3 ℝ) (hp : IsRot N_phi)
    (hN : ∀ N_lab, calcN (⟨Real.cos theta * Real.sin qaz, -(Real.sin theta), Real.cos theta * Real.cos qaz⟩ : V3 ℝ)
        (match naz with
          | none => (⟨0, -(Real.sin alpha), 0⟩ : V3 ℝ)
          | some nz => ⟨Real.cos alpha * Real.sin nz, -(Real.sin alpha), Real.cos alpha * Real.cos nz⟩) = .ok N_lab →
      IsRot N_lab ∧ (⟨N_lab.a00, N_lab.a10, N_lab.a20⟩ : V3 ℝ) = qDir theta qaz ∧ Samp1Generic s N_lab N_phi) :
    AllOk (SampleSpec ⟨N_phi.a00, N_phi.a10, N_phi.a20⟩ theta qaz) (remainingSample s theta alpha qaz naz N_phi) := by
  unfold remainingSample
  simp only [rs_cos, rs_sin, rs_zero]
  apply allOk_bind
  intro N_lab hcalc
  obtain ⟨hl, hcol, hgen⟩ := hN N_lab (by cases naz <;> exact hcalc)
  have lift : ∀ m, AllOk (FullSpec N_lab N_phi) m → AllOk (SampleSpec ⟨N_phi.a00, N_phi.a10, N_phi.a20⟩ theta qaz) m :=
    fun m hm => allOk_mono hm (fun t ht => sampleSpec_of_fullSpec N_lab N_phi theta qaz t hcol ht)
  cases s with
  | mu v => exact lift _ (sampleConMu_sound v N_lab N_phi hl hp hgen)
  | phi v => exact lift _ (sampleConPhi_sound v N_lab N_phi hl hp)
  | eta v => exact lift _ (sampleConEta_sound v N_lab N_phi hl hp hgen.1 hgen.2)
  | chi v => exact lift _ (sampleConChi_sound v N_lab N_phi hl hp hgen.1 hgen.2)

/-! ## `_calc_N`: the orthonormal triad of the scattering direction and the reference direction -/

theorem normalised_eq_unit (v : V3 ℝ) (hv : 0 < V3.norm v) : V3.normalised v = V3.unit v := by
  unfold V3.normalised
  simp only [rs_beq, rs_zero, rs_one]
  rw [if_neg (by simp [hv.ne'])]
  exact (V3.unit_eq_smul v hv).symm

theorem toRad_toDeg' (x : ℝ) : Scalar.toRad (Scalar.toDeg x) = x := by
  simp only [Scalar.toRad, Scalar.toDeg, rs_pi, rs_ofNat]
  have : Real.pi ≠ 0 := Real.pi_ne_zero
  field_simp

theorem unit_of_norm_one (v : V3 ℝ) (hv : V3.norm v = 1) : V3.unit v = v := by
  ext <;> simp [V3.unit, hv]

/-- **`_calc_N`, generic branch** (reference direction not within 1e-7 of the scattering direction): the result is a proper rotation whose first
    column is the unit scattering direction -/
theorem calcN_generic (Q0 n0 : V3 ℝ) (N : M3 ℝ) (hQ : 0 < V3.norm Q0) (hn : 0 < V3.norm n0)
    (hx : (1e-7 : ℝ) < V3.norm (V3.cross (V3.unit Q0) (V3.unit n0)))
    (h : calcN Q0 n0 = .ok N) :
    IsRot N ∧ (⟨N.a00, N.a10, N.a20⟩ : V3 ℝ) = V3.unit Q0 := by
  unfold calcN at h
  simp only [normalised_eq_unit Q0 hQ, normalised_eq_unit n0 hn] at h
  set Q := V3.unit Q0 with hQdef
  set n := V3.unit n0 with hndef
  have hQ1 : V3.norm Q = 1 := V3.norm_unit Q0 hQ
  have hn1 : V3.norm n = 1 := V3.norm_unit n0 hn
  have hQd := C20.dot_self_of_norm_one Q hQ1
  have hnd := C20.dot_self_of_norm_one n hn1
  obtain ⟨ang, hang, h⟩ := bind_ok_inv h
  -- the angle returned is `degrees(acos(Q·n))`
  have hc : V3.dot (V3.smul (1 / V3.norm Q) Q) (V3.smul (1 / V3.norm n) n) = V3.dot Q n := by
    rw [hQ1, hn1]; simp only [V3.dot, V3.smul]; ring
  have habs : |V3.dot Q n| ≤ 1 := by have := C11.abs_cos_between Q n; rwa [hc] at this
  have hangv : ang = Scalar.toDeg (Real.arccos (V3.dot Q n)) := by
    unfold angleBetween at hang
    simp only [rs_one, hc] at hang
    obtain ⟨a, ha, hp⟩ := bind_ok_inv hang
    obtain ⟨hav, _⟩ := boundAcos_ok habs ha
    simp only [pure, Except.pure, Except.ok.injEq] at hp
    rw [← hp, hav]
  have hlag := C20.lagrange Q n
  rw [hQd, hnd] at hlag
  have hnsq := C07.norm_sq (V3.cross Q n)
  have hsin : Real.sin (Scalar.toRad ang) = V3.norm (V3.cross Q n) := by
    rw [hangv, toRad_toDeg', Real.sin_arccos]
    have : 1 - V3.dot Q n ^ 2 = V3.norm (V3.cross Q n) * V3.norm (V3.cross Q n) := by rw [hnsq, hlag]; ring
    rw [this, Real.sqrt_mul_self (V3.norm_nonneg _)]
  have hnot : Scalar.isSmall (Scalar.sin (Scalar.toRad ang)) = false := by
    rw [rs_sin, hsin, isSmall_real]
    simp only [decide_eq_false_iff_not, not_le]
    rw [abs_of_nonneg (V3.norm_nonneg _)]; exact hx
  simp only [hnot, Bool.false_eq_true, if_false, pure, Except.pure, Except.ok.injEq] at h
  have p3 : 0 < V3.norm (V3.cross Q n) := lt_trans (by norm_num) hx
  have p2 : 0 < V3.norm (V3.cross (V3.cross Q n) Q) := by
    have hl := C20.lagrange (V3.cross Q n) Q
    have hperp : V3.dot (V3.cross Q n) Q = 0 := C20.dot_cross_left_self Q n
    rw [hQd, hperp] at hl
    have h2 := C07.norm_sq (V3.cross (V3.cross Q n) Q)
    have : V3.norm (V3.cross (V3.cross Q n) Q) * V3.norm (V3.cross (V3.cross Q n) Q) = V3.norm (V3.cross Q n) * V3.norm (V3.cross Q n) := by
      rw [h2, hl, hnsq]; ring
    have hnn := V3.norm_nonneg (V3.cross (V3.cross Q n) Q)
    rcases hnn.lt_or_eq with hlt | heq
    · exact hlt
    · rw [← heq] at this; nlinarith [mul_pos p3 p3]
  have hN : N = C07.triadMat Q n := by
    rw [← h, normalised_eq_unit _ p2, normalised_eq_unit _ p3]
    unfold C07.triadMat
    rw [unit_of_norm_one Q hQ1]
  have hrot := C07.triadMat_isRot Q n (by rw [hQ1]; norm_num) p2 p3
  refine ⟨hN ▸ hrot, ?_⟩
  rw [hN]
  simp only [C07.triadMat, M3.ofCols]
  rw [unit_of_norm_one Q hQ1]

/-- **eta + phi given** (`__calc_sample_con_eta_phi`, after the sign repair) -/
theorem sampleConEtaPhi_sound (eta phi qaz theta : ℝ) (N : M3 ℝ) (hN : N.a00 ^ 2 + N.a10 ^ 2 + N.a20 ^ 2 = 1)
    (hce : Real.cos eta ≠ 0)
    (hrho : -(Real.sin theta) ≠ 0 ∨ Real.cos theta * Real.cos qaz ≠ 0)
    (hclip : |(Real.sin qaz * Real.cos theta / Real.cos eta - (N.a10 * Real.cos phi - N.a00 * Real.sin phi) * Real.tan eta) /
              Scalar.hypot N.a20 (N.a00 * Real.cos phi + N.a10 * Real.sin phi)| ≤ 1)
    (hgen : Scalar.isSmall (Real.arccos ((Real.sin qaz * Real.cos theta / Real.cos eta - (N.a10 * Real.cos phi - N.a00 * Real.sin phi) * Real.tan eta) /
              Scalar.hypot N.a20 (N.a00 * Real.cos phi + N.a10 * Real.sin phi))) = false) :
    AllOk (SampleSpec ⟨N.a00, N.a10, N.a20⟩ theta qaz) (sampleConEtaPhi eta phi qaz theta N) := by
  unfold sampleConEtaPhi
  simp only [rs_cos, rs_sin, rs_atan2, rs_tan]
  set X := N.a20 with hXdef
  set Y := N.a00 * Real.cos phi + N.a10 * Real.sin phi with hYdef
  set b' := N.a10 * Real.cos phi - N.a00 * Real.sin phi with hbdef
  split
  · exact allOk_error _
  · rename_i hXY
    have hr0 : Y ≠ 0 ∨ X ≠ 0 := by
      by_contra hc; push_neg at hc
      apply hXY; simp [hc.1, hc.2, isSmall_real]; norm_num
    have hr := hypot_pos_of Y X hr0
    have hr2 := hypot_sq Y X
    have hhy : Scalar.hypot X Y = Scalar.hypot Y X := by simp only [Scalar.hypot, rs_sqrt]; congr 1; ring
    rw [hhy] at hclip hgen ⊢
    set r := Scalar.hypot Y X with hrdef
    apply allOk_tryAssert
    intro c hc
    obtain ⟨hcv, hcos⟩ := boundAcos_ok hclip hc
    rw [← hcv] at hgen
    rw [if_neg (by rw [hgen]; simp)]
    apply allOk_ok
    intro t ht
    obtain ⟨chi, hchi, rfl⟩ := List.mem_map.mp ht
    simp only [List.mem_cons, List.not_mem_nil, or_false] at hchi
    have hchi' : chi = c + atan2R X Y ∨ chi = -c + atan2R X Y := by
      rcases hchi with rfl | rfl
      · left; ring
      · right; ring
    have ha := acos_roots Y X r c chi hr hr2 hchi'
    rw [hcos] at ha
    have hrne := hr.ne'
    -- x-equation: (Y cos χ + X sin χ) cos η + b' sin η = q_x
    have hx : (Y * Real.cos chi + X * Real.sin chi) * Real.cos eta + b' * Real.sin eta = Real.sin qaz * Real.cos theta := by
      rw [ha, Real.tan_eq_sin_div_cos]; field_simp; ring
    unfold SampleSpec
    simp only []
    set A := Y * Real.sin chi - X * Real.cos chi with hAdef
    set B := -X * Real.sin chi * Real.sin eta - Real.cos chi * Real.sin eta * Y - Real.cos eta * (N.a00 * Real.sin phi - N.a10 * Real.cos phi) with hBdef
    have hBv : B = -(Y * Real.cos chi + X * Real.sin chi) * Real.sin eta + b' * Real.cos eta := by rw [hBdef, hbdef]; ring
    -- lengths
    have hp := Real.sin_sq_add_cos_sq phi
    have hxx := Real.sin_sq_add_cos_sq chi
    have hee := Real.sin_sq_add_cos_sq eta
    have hq := qDir_unit theta qaz
    simp only [qDir] at hq
    have hYb : Y ^ 2 + b' ^ 2 = N.a00 ^ 2 + N.a10 ^ 2 := by rw [hYdef, hbdef]; linear_combination (N.a00 ^ 2 + N.a10 ^ 2) * hp
    have hAB : B ^ 2 + A ^ 2 = Scalar.hypot (-(Real.sin theta)) (Real.cos theta * Real.cos qaz) ^ 2 := by
      rw [← hypot_sq]
      have e1 : (Y * Real.cos chi + X * Real.sin chi) ^ 2 + A ^ 2 = Y ^ 2 + X ^ 2 := by rw [hAdef]; linear_combination (Y ^ 2 + X ^ 2) * hxx
      have e2 : ((Y * Real.cos chi + X * Real.sin chi) * Real.cos eta + b' * Real.sin eta) ^ 2 + B ^ 2 = (Y * Real.cos chi + X * Real.sin chi) ^ 2 + b' ^ 2 := by
        rw [hBv]; linear_combination ((Y * Real.cos chi + X * Real.sin chi) ^ 2 + b' ^ 2) * hee
      rw [hx] at e2
      linear_combination e1 + e2 + hYb + hN - hq
    have hrho' := hypot_pos_of _ _ hrho
    have hrho2 := hypot_sq (-(Real.sin theta)) (Real.cos theta * Real.cos qaz)
    set rho := Scalar.hypot (-(Real.sin theta)) (Real.cos theta * Real.cos qaz) with hrhodef
    obtain ⟨hck, hsk⟩ := atan2_cs (-(Real.sin theta)) (Real.cos theta * Real.cos qaz) rho hrho' hrho2
    obtain ⟨hcks, hsks⟩ := atan2_cs B A rho hrho' hAB
    have hrhone := hrho'.ne'
    have hkk := Real.sin_sq_add_cos_sq (atan2R (Real.cos theta * Real.cos qaz) (-(Real.sin theta)))
    apply sampleSpec_of_mid
    generalize hκ : atan2R (Real.cos theta * Real.cos qaz) (-(Real.sin theta)) = κ at hck hsk hkk ⊢
    generalize hks : atan2R A B = ks at hcks hsks ⊢
    have hcm := Real.cos_add κ ks
    have hsm := Real.sin_add κ ks
    generalize κ + ks = μ at hcm hsm ⊢
    have hqy : -(Real.sin theta) = rho * Real.cos κ := by rw [hck]; field_simp
    have hqz : Real.cos theta * Real.cos qaz = rho * Real.sin κ := by rw [hsk]; field_simp
    have hBc : B = rho * Real.cos ks := by rw [hcks]; field_simp
    have hAs : A = rho * Real.sin ks := by rw [hsks]; field_simp
    rw [hBv] at hBc
    rw [hAdef] at hAs
    rw [hYdef, hbdef] at hx hBc
    rw [hYdef] at hAs
    ext
    · simp only [M3.mulVec, M3.mul, M3.transpose, rotX, rotZ, rotY, qDir, rs_cos, rs_sin, rs_one, rs_zero, Real.cos_neg, Real.sin_neg]
      linear_combination hx
    · simp only [M3.mulVec, M3.mul, M3.transpose, rotX, rotZ, rotY, qDir, rs_cos, rs_sin, rs_one, rs_zero, Real.cos_neg, Real.sin_neg]
      linear_combination hBc - Real.cos μ * hqy - Real.sin μ * hqz - (rho * Real.cos κ) * hcm - (rho * Real.sin κ) * hsm - (rho * Real.cos ks) * hkk
    · simp only [M3.mulVec, M3.mul, M3.transpose, rotX, rotZ, rotY, qDir, rs_cos, rs_sin, rs_one, rs_zero, Real.cos_neg, Real.sin_neg]
      linear_combination (-1 : ℝ) * hAs + Real.sin μ * hqy - Real.cos μ * hqz + (rho * Real.cos κ) * hsm - (rho * Real.sin κ) * hcm + (rho * Real.sin ks) * hkk

theorem sign_pos_of (x : ℝ) (h : (1e-7 : ℝ) < x) : (Scalar.sign x : ℝ) = 1 := by
  unfold Scalar.sign
  have h1 : Scalar.isSmall x = false := by
    rw [isSmall_real]; simp only [decide_eq_false_iff_not, not_le]; rw [abs_of_pos (by linarith)]; exact h
  have h2 : Scalar.lt (Scalar.zero : ℝ) x = true := by simp only [rs_lt, rs_zero, decide_eq_true_eq]; linarith
  rw [if_neg (by simp [h1]), if_pos h2, rs_one]

theorem sign_neg_of (x : ℝ) (h : x < -(1e-7 : ℝ)) : (Scalar.sign x : ℝ) = -1 := by
  unfold Scalar.sign
  have h1 : Scalar.isSmall x = false := by
    rw [isSmall_real]; simp only [decide_eq_false_iff_not, not_le]; rw [abs_of_neg (by linarith)]; linarith
  have h2 : Scalar.lt (Scalar.zero : ℝ) x = false := by simp only [rs_lt, rs_zero, decide_eq_false_iff_not, not_lt]; linarith
  rw [if_neg (by rw [h1]; simp), if_neg (by rw [h2]; simp), rs_one]

/-- **eta + chi given** (`__calc_sample_con_eta_chi`) -/
theorem sampleConEtaChi_sound (eta chi qaz theta : ℝ) (N : M3 ℝ) (hN : N.a00 ^ 2 + N.a10 ^ 2 + N.a20 ^ 2 = 1)
    (hrho : (1e-7 : ℝ) < Real.sin theta ^ 2 + (Real.cos qaz * Real.cos theta) ^ 2)
    (hclip : |(Real.cos theta * Real.sin qaz - N.a20 * Real.cos eta * Real.sin chi) /
              Scalar.hypot (N.a10 * Real.cos chi * Real.cos eta - N.a00 * Real.sin eta) (N.a00 * Real.cos chi * Real.cos eta + N.a10 * Real.sin eta)| ≤ 1)
    (hgen : Scalar.isSmall (Real.arccos ((Real.cos theta * Real.sin qaz - N.a20 * Real.cos eta * Real.sin chi) /
              Scalar.hypot (N.a10 * Real.cos chi * Real.cos eta - N.a00 * Real.sin eta) (N.a00 * Real.cos chi * Real.cos eta + N.a10 * Real.sin eta))) = false) :
    AllOk (SampleSpec ⟨N.a00, N.a10, N.a20⟩ theta qaz) (sampleConEtaChi eta chi qaz theta N) := by
  unfold sampleConEtaChi
  simp only [rs_cos, rs_sin, rs_atan2]
  set A := N.a10 * Real.cos chi * Real.cos eta - N.a00 * Real.sin eta with hAdef
  set B := N.a00 * Real.cos chi * Real.cos eta + N.a10 * Real.sin eta with hBdef
  split
  · exact allOk_error _
  · rename_i hAB
    have hr0 : B ≠ 0 ∨ A ≠ 0 := by
      by_contra hc; push_neg at hc
      apply hAB; simp [hc.1, hc.2, isSmall_real]; norm_num
    have hr := hypot_pos_of B A hr0
    have hr2 := hypot_sq B A
    have hhy : Scalar.hypot A B = Scalar.hypot B A := by simp only [Scalar.hypot, rs_sqrt]; congr 1; ring
    rw [hhy] at hclip hgen ⊢
    set r := Scalar.hypot B A with hrdef
    apply allOk_tryAssert
    intro c hc
    obtain ⟨hcv, hcos⟩ := boundAcos_ok hclip hc
    rw [← hcv] at hgen
    rw [if_neg (by rw [hgen]; simp)]
    apply allOk_forM'
    intro phi hphi
    simp only [List.mem_cons, List.not_mem_nil, or_false] at hphi
    have ha := acos_roots B A r c phi hr hr2 hphi
    rw [hcos] at ha
    have hrne := hr.ne'
    have hx : B * Real.cos phi + A * Real.sin phi + N.a20 * Real.cos eta * Real.sin chi = Real.cos theta * Real.sin qaz := by
      rw [ha]; field_simp; ring
    -- y and z components of ETA·CHI·PHI·h
    set Yv := -N.a20 * Real.sin chi * Real.sin eta - (Real.cos chi * Real.cos phi * Real.sin eta + Real.cos eta * Real.sin phi) * N.a00
              - (Real.cos chi * Real.sin eta * Real.sin phi - Real.cos eta * Real.cos phi) * N.a10 with hYv
    set Zv := -N.a00 * Real.cos phi * Real.sin chi - N.a10 * Real.sin chi * Real.sin phi + N.a20 * Real.cos chi with hZv
    have hA10 : N.a00 * Real.cos phi * Real.sin chi + N.a10 * Real.sin chi * Real.sin phi - N.a20 * Real.cos chi = -Zv := by rw [hZv]; ring
    rw [hA10]
    have hp := Real.sin_sq_add_cos_sq phi
    have hxx := Real.sin_sq_add_cos_sq chi
    have hee := Real.sin_sq_add_cos_sq eta
    have hq := qDir_unit theta qaz
    simp only [qDir] at hq
    have hlen : Yv ^ 2 + Zv ^ 2 = Real.sin theta ^ 2 + (Real.cos qaz * Real.cos theta) ^ 2 := by
      have e : (B * Real.cos phi + A * Real.sin phi + N.a20 * Real.cos eta * Real.sin chi) ^ 2 + Yv ^ 2 + Zv ^ 2 = N.a00 ^ 2 + N.a10 ^ 2 + N.a20 ^ 2 := by
        -- (x, Yv, Zv) is the rotation ETA·CHI·PHI applied to h
        have hM : IsRot (ecp eta chi phi) := IsRot.mul (IsRot.mul (isRot_rotZ _) (isRot_rotY _)) (isRot_rotZ _)
        have hn := C08.norm_rot (ecp eta chi phi) hM ⟨N.a00, N.a10, N.a20⟩
        have h1 := C07.norm_sq (M3.mulVec (ecp eta chi phi) ⟨N.a00, N.a10, N.a20⟩)
        have h2 := C07.norm_sq (⟨N.a00, N.a10, N.a20⟩ : V3 ℝ)
        rw [hn, h2] at h1
        rw [ecp_entries] at h1
        simp only [V3.dot, M3.mulVec] at h1
        rw [hYv, hZv, hAdef, hBdef]
        linear_combination (-1 : ℝ) * h1
      rw [hx] at e
      linear_combination e + hN - hq
    have hs1 : (Scalar.sign (-Zv * Zv - Yv * Yv) : ℝ) = -1 :=
      sign_neg_of _ (by rw [show -Zv * Zv - Yv * Yv = -(Yv ^ 2 + Zv ^ 2) by ring, hlen]; linarith)
    have hs2 : (Scalar.sign (Yv * Yv - Zv * -Zv) : ℝ) = 1 :=
      sign_pos_of _ (by rw [show Yv * Yv - Zv * -Zv = Yv ^ 2 + Zv ^ 2 by ring, hlen]; linarith)
    simp only [hs1, hs2]
    split
    · exact allOk_error _
    · apply allOk_ok
      intro t ht
      simp only [List.mem_singleton] at ht
      subst ht
      unfold SampleSpec
      simp only []
      have hD : (-(Real.sin theta)) ^ 2 + (Real.cos qaz * Real.cos theta) ^ 2 = Yv ^ 2 + Zv ^ 2 := by rw [hlen]; ring
      obtain ⟨m1, m2⟩ := rot_solve (-(Real.sin theta)) (Real.cos qaz * Real.cos theta) Yv Zv hD
      have e1 : Yv * (Real.cos qaz * Real.cos theta) - Zv * -(Real.sin theta) = (-(Real.sin theta) * Zv - Real.cos qaz * Real.cos theta * Yv) * -1 := by ring
      have e2 : Yv * -(Real.sin theta) + Zv * (Real.cos qaz * Real.cos theta) = (-(Real.sin theta) * Yv - Real.cos qaz * Real.cos theta * -Zv) * 1 := by ring
      rw [e1, e2] at m1 m2
      generalize atan2R ((-(Real.sin theta) * Zv - Real.cos qaz * Real.cos theta * Yv) * -1) ((-(Real.sin theta) * Yv - Real.cos qaz * Real.cos theta * -Zv) * 1) = μ at m1 m2 ⊢
      apply sampleSpec_of_mid
      rw [hYv] at m1
      rw [hZv] at m2
      rw [hAdef, hBdef] at hx
      ext
      · simp only [M3.mulVec, M3.mul, M3.transpose, rotX, rotZ, rotY, qDir, rs_cos, rs_sin, rs_one, rs_zero, Real.cos_neg, Real.sin_neg]
        linear_combination hx
      · simp only [M3.mulVec, M3.mul, M3.transpose, rotX, rotZ, rotY, qDir, rs_cos, rs_sin, rs_one, rs_zero, Real.cos_neg, Real.sin_neg]
        linear_combination (-1 : ℝ) * m1
      · simp only [M3.mulVec, M3.mul, M3.transpose, rotX, rotZ, rotY, qDir, rs_cos, rs_sin, rs_one, rs_zero, Real.cos_neg, Real.sin_neg]
        linear_combination (-1 : ℝ) * m2

/-- generic-branch side conditions of the nine detector + two-sample solvers: the `asin`/`acos` argument is not clipped by `bound`, the
    coincident-root shortcut is not taken, and the divisions are by non-zero quantities -/
def Samp2DetGeneric (s : Samp2Det ℝ) (N : M3 ℝ) (theta qaz : ℝ) : Prop :=
  match s with
  | .muEta mu eta => |(-(outerInv mu eta (qDir theta qaz)).y) / Scalar.hypot N.a00 N.a10| ≤ 1
  | .omegaBisect _ => True
  | .muBisect _ => True
  | .etaBisect _ => True
  | .chiPhi chi phi => (Real.sin theta ≠ 0 ∨ -(Real.cos qaz) * Real.cos theta ≠ 0) ∧
      |(inner chi phi ⟨N.a00, N.a10, N.a20⟩).z / Real.sqrt (Real.cos qaz * Real.cos qaz * (Real.cos theta * Real.cos theta) + Real.sin theta * Real.sin theta)| ≤ 1
  | .muPhi mu phi => (N.a00 * Real.cos phi + N.a10 * Real.sin phi ≠ 0 ∨ N.a20 ≠ 0) ∧
      |(-(M3.mulVec (M3.transpose (rotX mu)) (qDir theta qaz)).z) / Scalar.hypot (N.a00 * Real.cos phi + N.a10 * Real.sin phi) N.a20| ≤ 1
  | .muChi mu chi =>
      |(N.a20 * Real.cos chi - (Real.cos mu * Real.cos qaz * Real.cos theta + Real.sin mu * Real.sin theta)) / (Real.sin chi * Scalar.hypot N.a10 N.a00)| ≤ 1 ∧
      Scalar.isSmall (Real.arccos ((N.a20 * Real.cos chi - (Real.cos mu * Real.cos qaz * Real.cos theta + Real.sin mu * Real.sin theta)) /
        (Real.sin chi * Scalar.hypot N.a10 N.a00))) = false
  | .etaPhi eta phi => Real.cos eta ≠ 0 ∧ (-(Real.sin theta) ≠ 0 ∨ Real.cos theta * Real.cos qaz ≠ 0) ∧
      |(Real.sin qaz * Real.cos theta / Real.cos eta - (N.a10 * Real.cos phi - N.a00 * Real.sin phi) * Real.tan eta) /
        Scalar.hypot N.a20 (N.a00 * Real.cos phi + N.a10 * Real.sin phi)| ≤ 1 ∧
      Scalar.isSmall (Real.arccos ((Real.sin qaz * Real.cos theta / Real.cos eta - (N.a10 * Real.cos phi - N.a00 * Real.sin phi) * Real.tan eta) /
        Scalar.hypot N.a20 (N.a00 * Real.cos phi + N.a10 * Real.sin phi))) = false
  | .etaChi eta chi => (1e-7 : ℝ) < Real.sin theta ^ 2 + (Real.cos qaz * Real.cos theta) ^ 2 ∧
      |(Real.cos theta * Real.sin qaz - N.a20 * Real.cos eta * Real.sin chi) /
        Scalar.hypot (N.a10 * Real.cos chi * Real.cos eta - N.a00 * Real.sin eta) (N.a00 * Real.cos chi * Real.cos eta + N.a10 * Real.sin eta)| ≤ 1 ∧
      Scalar.isSmall (Real.arccos ((Real.cos theta * Real.sin qaz - N.a20 * Real.cos eta * Real.sin chi) /
        Scalar.hypot (N.a10 * Real.cos chi * Real.cos eta - N.a00 * Real.sin eta) (N.a00 * Real.cos chi * Real.cos eta + N.a10 * Real.sin eta))) = false

/-- **detector + two sample angles, all nine branches** (`_calc_sample_con_two_sample_and_detector`): on the generic branch every returned tuple
    whose own `asin` argument was not clipped satisfies the sample relation exactly -/
theorem twoSampleDetector_sound (s : Samp2Det ℝ) (qaz theta : ℝ) (N : M3 ℝ) (hN : N.a00 ^ 2 + N.a10 ^ 2 + N.a20 ^ 2 = 1)
    (hgen : Samp2DetGeneric s N theta qaz) :
    AllOk (fun t => ClipMuEta N theta qaz t → SampleSpec ⟨N.a00, N.a10, N.a20⟩ theta qaz t) (twoSampleDetector s qaz theta N) := by
  have weaken : ∀ m, AllOk (SampleSpec ⟨N.a00, N.a10, N.a20⟩ theta qaz) m →
      AllOk (fun t => ClipMuEta N theta qaz t → SampleSpec ⟨N.a00, N.a10, N.a20⟩ theta qaz t) m :=
    fun m hm => allOk_mono hm (fun t ht _ => ht)
  cases s with
  | muEta mu eta => exact weaken _ (sampleConMuEta_sound mu eta qaz theta N hN hgen)
  | omegaBisect om => exact sampleConOmegaBisect_sound om qaz theta N hN
  | muBisect mu => exact sampleConMuBisect_sound mu qaz theta N hN
  | etaBisect eta => exact sampleConEtaBisect_sound eta qaz theta N hN
  | chiPhi chi phi => exact weaken _ (sampleConChiPhi_sound chi phi qaz theta N hN hgen.1 hgen.2)
  | muPhi mu phi => exact weaken _ (sampleConMuPhi_sound mu phi qaz theta N hN hgen.1 hgen.2)
  | muChi mu chi => exact weaken _ (sampleConMuChi_sound mu chi qaz theta N hN hgen.1 hgen.2)
  | etaPhi eta phi => exact weaken _ (sampleConEtaPhi_sound eta phi qaz theta N hN hgen.1 hgen.2.1 hgen.2.2.1 hgen.2.2.2)
  | etaChi eta chi => exact weaken _ (sampleConEtaChi_sound eta chi qaz theta N hN hgen.1 hgen.2.1 hgen.2.2)

/-! ## reference + two sample angles (`calc_reference.py`): `Z · N_phi · PSIᵀ · THETAᵀ = F(qaz)` -/

/-- `F(qaz) = Ry(qaz − π/2)` -/
def Fq (qaz : ℝ) : M3 ℝ := ⟨Real.sin qaz, 0, -Real.cos qaz, 0, 1, 0, Real.cos qaz, 0, Real.sin qaz⟩

theorem Fq_eq (qaz : ℝ) : rotY (qaz - Real.pi / 2) = Fq qaz := by
  have h1 : Real.cos (qaz - Real.pi / 2) = Real.sin qaz := by rw [Real.cos_sub, Real.cos_pi_div_two, Real.sin_pi_div_two]; ring
  have h2 : Real.sin (qaz - Real.pi / 2) = -Real.cos qaz := by rw [Real.sin_sub, Real.cos_pi_div_two, Real.sin_pi_div_two]; ring
  ext <;> simp [rotY, Fq, h1, h2]

theorem isRot_Fq (qaz : ℝ) : IsRot (Fq qaz) := by rw [← Fq_eq]; exact isRot_rotY _

/-- the orientation equation of the reference modes: with `V = N_phi·PSIᵀ·THETAᵀ`, `Z·V = F(qaz)` -/
def RefSpec (Vr : M3 ℝ) (t : RTuple ℝ) : Prop :=
  M3.mul (C04.Z t.2.2.1 t.2.2.2.1 t.2.2.2.2.1 t.2.2.2.2.2) Vr = Fq t.1

/-- two proper rotations that agree on their third row and second column (crossing entry not ±1) are equal -/
theorem rot_eq_of_row2_col1 (A B : M3 ℝ) (hA : IsRot A) (hB : IsRot B) (hne : A.a21 ^ 2 ≠ 1)
    (h20 : A.a20 = B.a20) (h21 : A.a21 = B.a21) (h22 : A.a22 = B.a22) (h01 : A.a01 = B.a01) (h11 : A.a11 = B.a11) : A = B := by
  have key : ∀ M : M3 ℝ, IsRot M →
      M.a00 * (1 - M.a21 ^ 2) = M.a11 * M.a22 - M.a21 * M.a01 * M.a20 ∧
      M.a10 * (1 - M.a21 ^ 2) = -M.a01 * M.a22 - M.a21 * M.a11 * M.a20 ∧
      M.a12 = M.a01 * M.a20 - M.a00 * M.a21 ∧ M.a02 = M.a10 * M.a21 - M.a11 * M.a20 := by
    intro M hM
    have hadj := adj_eq_transpose hM
    have d00 := congrArg M3.a00 hadj; have d01 := congrArg M3.a01 hadj
    have d21 := congrArg M3.a21 hadj; have d20 := congrArg M3.a20 hadj
    simp only [M3.adj, M3.transpose] at d00 d01 d21 d20
    -- d00 : a11 a22 − a12 a21 = a00 ; d01 : a02 a21 − a01 a22 = a10 ; d21 : a01 a20 − a00 a21 = a12 ; d20 : a10 a21 − a11 a20 = a02
    refine ⟨?_, ?_, ?_, ?_⟩
    · linear_combination (-1 : ℝ) * d00 + M.a21 * d21
    · linear_combination (-1 : ℝ) * d01 - M.a21 * d20
    · linear_combination (-1 : ℝ) * d21
    · linear_combination (-1 : ℝ) * d20
  obtain ⟨a1, a2, a3, a4⟩ := key A hA
  obtain ⟨b1, b2, b3, b4⟩ := key B hB
  have hd : (1 - A.a21 ^ 2) ≠ 0 := by intro h; apply hne; linarith
  simp only [← h20, ← h21, ← h22, ← h01, ← h11] at b1 b2 b3 b4
  have e00 : A.a00 = B.a00 := mul_right_cancel₀ hd (by rw [a1, b1])
  have e10 : A.a10 = B.a10 := mul_right_cancel₀ hd (by rw [a2, b2])
  have e12 : A.a12 = B.a12 := by rw [a3, b3, e00]
  have e02 : A.a02 = B.a02 := by rw [a4, b4, e10]
  ext <;> assumption

/-- `ETAᵀ·MUᵀ·F(qaz)` entry by entry -/
def emf (mu eta qaz : ℝ) : M3 ℝ := M3.mul (M3.mul (M3.transpose (rotZ (-eta))) (M3.transpose (rotX mu))) (Fq qaz)

theorem emf_entries (mu eta qaz : ℝ) : emf mu eta qaz =
    ⟨Real.cos eta * Real.sin qaz - Real.sin eta * Real.sin mu * Real.cos qaz, -Real.sin eta * Real.cos mu, -Real.cos eta * Real.cos qaz - Real.sin eta * Real.sin mu * Real.sin qaz,
     Real.sin eta * Real.sin qaz + Real.cos eta * Real.sin mu * Real.cos qaz, Real.cos eta * Real.cos mu, -Real.sin eta * Real.cos qaz + Real.cos eta * Real.sin mu * Real.sin qaz,
     Real.cos mu * Real.cos qaz, -Real.sin mu, Real.cos mu * Real.sin qaz⟩ := by
  ext <;> simp only [emf, Fq, M3.mul, M3.transpose, rotX, rotZ, rs_cos, rs_sin, rs_one, rs_zero, Real.cos_neg, Real.sin_neg] <;> ring

theorem isRot_emf (mu eta qaz : ℝ) : IsRot (emf mu eta qaz) :=
  IsRot.mul (IsRot.mul (C04.isRot_transpose (isRot_rotZ _)) (C04.isRot_transpose (isRot_rotX _))) (isRot_Fq qaz)

/-- if `CHI·PHI·V_ref = ETAᵀ·MUᵀ·F(qaz)` the orientation equation of the reference modes holds -/
theorem refSpec_of_emf (Vr : M3 ℝ) (qaz psi mu eta chi phi : ℝ)
    (h : M3.mul (M3.mul (rotY chi) (rotZ (-phi))) Vr = emf mu eta qaz) : RefSpec Vr (qaz, psi, mu, eta, chi, phi) := by
  unfold RefSpec
  simp only []
  have e : C04.Z mu eta chi phi = M3.mul (M3.mul (rotX mu) (rotZ (-eta))) (M3.mul (rotY chi) (rotZ (-phi))) := by
    simp only [C04.Z, M3.mul_assoc']
  rw [e, M3.mul_assoc', h, emf, ← M3.mul_assoc', ← M3.mul_assoc']
  have : M3.mul (M3.mul (M3.mul (rotX mu) (rotZ (-eta))) (M3.transpose (rotZ (-eta)))) (M3.transpose (rotX mu)) = M3.id := by
    rw [M3.mul_assoc' (rotX mu), rot_mul_transpose (isRot_rotZ _), M3.mul_id, rot_mul_transpose (isRot_rotX _)]
  rw [this, M3.id_mul]

theorem isSmall_zero : Scalar.isSmall (0 : ℝ) = true := by rw [isSmall_real]; simp; norm_num

theorem sign_small (x : ℝ) (h : Scalar.isSmall x = true) : (Scalar.sign x : ℝ) = 0 := by
  unfold Scalar.sign; rw [if_pos h, rs_zero]

theorem isRot_Vref (psi theta : ℝ) (N : M3 ℝ) (hN : IsRot N) : IsRot (Vref psi theta N) := by
  unfold Vref
  rw [gen_x_rotation, gen_z_rotation]
  exact IsRot.mul (IsRot.mul hN (C04.isRot_transpose (isRot_rotX _))) (C04.isRot_transpose (isRot_rotZ _))

/-- **reference + chi + phi** (`__calc_sample_ref_con_chi_phi`) -/
theorem refConChiPhi_sound (chi phi psi theta : ℝ) (N : M3 ℝ) (hN : IsRot N) :
    AllOk (RefSpec (Vref psi theta N)) (refConChiPhi chi phi psi theta N) := by
  unfold refConChiPhi
  simp only []
  have hVeq : M3.mul (M3.mul (M3.mul (M3.mul (Gen.rot_CHI chi) (Gen.rot_PHI phi)) N) (M3.transpose (Gen.x_rotation psi))) (M3.transpose (Gen.z_rotation (-theta)))
      = M3.mul (M3.mul (rotY chi) (rotZ (-phi))) (Vref psi theta N) := by
    simp only [Vref, (gen_rot_senses chi).2.2.1, (gen_rot_senses phi).2.2.2.2.2, M3.mul_assoc']
  rw [hVeq]
  set V := M3.mul (M3.mul (rotY chi) (rotZ (-phi))) (Vref psi theta N) with hVdef
  have hV : IsRot V := IsRot.mul (IsRot.mul (isRot_rotY _) (isRot_rotZ _)) (isRot_Vref psi theta N hN)
  have hrow : V.a20 ^ 2 + V.a21 ^ 2 + V.a22 ^ 2 = 1 := (isRot_entries_le hV).1
  have hcol : V.a01 ^ 2 + V.a11 ^ 2 + V.a21 ^ 2 = 1 := by
    have := congrArg M3.a11 hV.1; simp only [M3.mul, M3.transpose, M3.id, rs_one] at this; linear_combination this
  have h21 : |(-V.a21)| ≤ 1 := by
    rw [abs_neg]; apply abs_le_of_sq_le_sq _ (by norm_num); nlinarith [sq_nonneg V.a20, sq_nonneg V.a22]
  apply allOk_tryAssert
  intro s hs
  obtain ⟨_, hsin0⟩ := boundAsin_ok h21 hs
  simp only [rs_cos, rs_sin, rs_atan2, rs_pi]
  have body : ∀ mu : ℝ, Real.sin mu = -V.a21 →
      AllOk (RefSpec (Vref psi theta N))
        (if (Scalar.isSmall (-(Scalar.sign (Real.cos mu) : ℝ) * V.a01) && Scalar.isSmall ((Scalar.sign (Real.cos mu) : ℝ) * V.a11)) = true then Except.error PErr.dce
         else if (Scalar.isSmall ((Scalar.sign (Real.cos mu) : ℝ) * V.a22) && Scalar.isSmall ((Scalar.sign (Real.cos mu) : ℝ) * V.a20)) = true then Except.error PErr.dce
         else Except.ok [(atan2R ((Scalar.sign (Real.cos mu) : ℝ) * V.a22) ((Scalar.sign (Real.cos mu) : ℝ) * V.a20), psi, mu,
                          atan2R (-(Scalar.sign (Real.cos mu) : ℝ) * V.a01) ((Scalar.sign (Real.cos mu) : ℝ) * V.a11), chi, phi)]) := by
    intro mu hmu
    by_cases hsm : Scalar.isSmall (Real.cos mu) = true
    · rw [sign_small _ hsm]
      simp [isSmall_zero]
      exact allOk_error _
    · have hsm' : Scalar.isSmall (Real.cos mu) = false := by simpa using hsm
      have hcne := not_small_ne_zero hsm'
      obtain ⟨hsg, hsg2⟩ := sign_facts (Real.cos mu) hsm'
      set sg := (Scalar.sign (Real.cos mu) : ℝ) with hsgdef
      split
      · exact allOk_error _
      · split
        · exact allOk_error _
        · apply allOk_ok
          intro t ht
          simp only [List.mem_singleton] at ht
          subst ht
          have habs : 0 < |Real.cos mu| := abs_pos.mpr hcne
          have hsc := Real.sin_sq_add_cos_sq mu
          have hsqabs : |Real.cos mu| ^ 2 = Real.cos mu ^ 2 := sq_abs _
          have hcos : Real.cos mu = sg * |Real.cos mu| := by rw [← hsg]; linear_combination (-(Real.cos mu)) * hsg2
          generalize |Real.cos mu| = A at habs hsqabs hcos hsg
          have hR1 : (sg * V.a20) ^ 2 + (sg * V.a22) ^ 2 = A ^ 2 := by
            rw [hsqabs]; rw [hmu] at hsc
            linear_combination (V.a20 ^ 2 + V.a22 ^ 2) * hsg2 + hrow - hsc
          have hR2 : (sg * V.a11) ^ 2 + (-sg * V.a01) ^ 2 = A ^ 2 := by
            rw [hsqabs]; rw [hmu] at hsc
            linear_combination (V.a01 ^ 2 + V.a11 ^ 2) * hsg2 + hcol - hsc
          obtain ⟨hcq, hsq⟩ := atan2_cs (sg * V.a20) (sg * V.a22) A habs hR1
          obtain ⟨hce, hse⟩ := atan2_cs (sg * V.a11) (-sg * V.a01) A habs hR2
          have habsne := habs.ne'
          apply refSpec_of_emf
          rw [← hVdef]
          apply rot_eq_of_row2_col1 _ _ hV (isRot_emf _ _ _)
          · intro h1
            have h2 : V.a21 ^ 2 = Real.sin mu ^ 2 := by rw [hmu]; ring
            have : Real.cos mu ^ 2 = 0 := by nlinarith
            exact hcne (pow_eq_zero_iff (by norm_num) |>.mp this)
          all_goals rw [emf_entries]; simp only []
          · rw [hcq, hcos]; field_simp; linear_combination (-V.a20) * hsg2
          · rw [hmu]; ring
          · rw [hsq, hcos]; field_simp; linear_combination (-V.a22) * hsg2
          · rw [hse, hcos]; field_simp; linear_combination (-V.a01) * hsg2
          · rw [hce, hcos]; field_simp; linear_combination (-V.a11) * hsg2
  split
  · apply allOk_forM'
    intro mu hmu
    simp only [List.mem_singleton] at hmu
    subst hmu
    exact body _ hsin0
  · apply allOk_forM'
    intro mu hmu
    simp only [List.mem_cons, List.not_mem_nil, or_false] at hmu
    rcases hmu with rfl | rfl
    · exact body _ hsin0
    · exact body _ (by rw [Real.sin_pi_sub]; exact hsin0)

/-- `CHI·PHI` entry by entry -/
def cp (chi phi : ℝ) : M3 ℝ := M3.mul (rotY chi) (rotZ (-phi))
theorem cp_entries (chi phi : ℝ) : cp chi phi =
    ⟨Real.cos chi * Real.cos phi, Real.cos chi * Real.sin phi, Real.sin chi, -Real.sin phi, Real.cos phi, 0,
     -Real.sin chi * Real.cos phi, -Real.sin chi * Real.sin phi, Real.cos chi⟩ := by
  ext <;> simp only [cp, M3.mul, rotY, rotZ, rs_cos, rs_sin, rs_one, rs_zero, Real.cos_neg, Real.sin_neg] <;> ring
theorem isRot_cp (chi phi : ℝ) : IsRot (cp chi phi) := IsRot.mul (isRot_rotY _) (isRot_rotZ _)

/-- `__get_phi_and_qaz`: once chi satisfies the `V21` equation, the two `atan2` read-offs complete the orientation equation -/
theorem phiAndQaz_sound (chi eta mu : ℝ) (V : M3 ℝ) (hV : IsRot V)
    (h21 : V.a21 = -(Real.sin chi * Real.sin eta * Real.cos mu + Real.cos chi * Real.sin mu)) (hne : V.a21 ^ 2 ≠ 1) :
    M3.mul (cp chi (phiAndQaz chi eta mu V).2) V = emf mu eta (phiAndQaz chi eta mu V).1 := by
  unfold phiAndQaz
  simp only [rs_sin, rs_cos, rs_atan2]
  set a := Real.sin chi * Real.cos eta with ha
  set b := Real.sin chi * Real.sin eta * Real.sin mu - Real.cos chi * Real.cos mu with hb
  set a' := Real.sin chi * Real.sin mu - Real.cos mu * Real.cos chi * Real.sin eta with ha'
  set b' := Real.cos mu * Real.cos eta with hb'
  have hsx := Real.sin_sq_add_cos_sq chi
  have hse := Real.sin_sq_add_cos_sq eta
  have hsm := Real.sin_sq_add_cos_sq mu
  have hrow : V.a20 ^ 2 + V.a21 ^ 2 + V.a22 ^ 2 = 1 := (isRot_entries_le hV).1
  have hcol : V.a01 ^ 2 + V.a11 ^ 2 + V.a21 ^ 2 = 1 := by
    have := congrArg M3.a11 hV.1; simp only [M3.mul, M3.transpose, M3.id, rs_one] at this; linear_combination this
  have hD : a ^ 2 + b ^ 2 = 1 - V.a21 ^ 2 := by
    rw [h21, ha, hb]
    linear_combination (Real.sin chi ^ 2 * Real.sin eta ^ 2 + Real.cos chi ^ 2) * hsm + (Real.sin chi ^ 2) * hse + hsx - hsm * 0
      + ((Real.sin chi ^ 2 * Real.sin eta ^ 2 + Real.cos chi ^ 2) - 1 + Real.sin chi ^ 2 * Real.cos eta ^ 2) * 0
  have hD' : a' ^ 2 + b' ^ 2 = 1 - V.a21 ^ 2 := by
    rw [h21, ha', hb']
    linear_combination hsm + (Real.cos mu ^ 2) * hse + (Real.sin mu ^ 2 + Real.cos mu ^ 2 * Real.sin eta ^ 2) * hsx
  have hDpos : 0 < 1 - V.a21 ^ 2 := by
    have : V.a21 ^ 2 ≤ 1 := by nlinarith [sq_nonneg V.a20, sq_nonneg V.a22]
    exact lt_of_le_of_ne (by linarith) (fun h => hne (by linarith))
  have hq := atan2_cs (-V.a22 * a - V.a20 * b) (V.a20 * a - V.a22 * b) (1 - V.a21 ^ 2) hDpos (by
    have : (-V.a22 * a - V.a20 * b) ^ 2 + (V.a20 * a - V.a22 * b) ^ 2 = (a ^ 2 + b ^ 2) * (V.a20 ^ 2 + V.a22 ^ 2) := by ring
    rw [this, hD]; have : V.a20 ^ 2 + V.a22 ^ 2 = 1 - V.a21 ^ 2 := by linarith
    rw [this]; ring)
  have hp := atan2_cs (V.a01 * a' + V.a11 * b') (V.a11 * a' - V.a01 * b') (1 - V.a21 ^ 2) hDpos (by
    have : (V.a01 * a' + V.a11 * b') ^ 2 + (V.a11 * a' - V.a01 * b') ^ 2 = (a' ^ 2 + b' ^ 2) * (V.a01 ^ 2 + V.a11 ^ 2) := by ring
    rw [this, hD']; have : V.a01 ^ 2 + V.a11 ^ 2 = 1 - V.a21 ^ 2 := by linarith
    rw [this]; ring)
  obtain ⟨hcq, hsq⟩ := hq
  obtain ⟨hcp, hsp⟩ := hp
  generalize atan2R (V.a20 * a - V.a22 * b) (-V.a22 * a - V.a20 * b) = qaz at hcq hsq ⊢
  generalize atan2R (V.a11 * a' - V.a01 * b') (V.a01 * a' + V.a11 * b') = phi at hcp hsp ⊢
  have hne' := hDpos.ne'
  -- V = (CHI·PHI)ᵀ · emf : they agree on the third row and the second column
  have hVeq : V = M3.mul (M3.transpose (cp chi phi)) (emf mu eta qaz) := by
    apply rot_eq_of_row2_col1 _ _ hV (IsRot.mul (C04.isRot_transpose (isRot_cp _ _)) (isRot_emf _ _ _)) hne
    all_goals rw [cp_entries, emf_entries]; simp only [M3.mul, M3.transpose]
    · -- V20 = a sin q − b cos q
      rw [hcq, hsq]; field_simp
      have : V.a20 ^ 2 + V.a22 ^ 2 = 1 - V.a21 ^ 2 := by linarith
      rw [ha, hb] at hD ⊢
      linear_combination (-V.a20) * hD
    · rw [h21]; ring
    · rw [hcq, hsq]; field_simp
      rw [ha, hb] at hD ⊢
      linear_combination (-V.a22) * hD
    · rw [hcp, hsp]; field_simp
      rw [ha', hb'] at hD' ⊢
      linear_combination (-V.a01) * hD'
    · rw [hcp, hsp]; field_simp
      rw [ha', hb'] at hD' ⊢
      linear_combination (-V.a11) * hD'
  rw [hVeq, ← M3.mul_assoc', rot_mul_transpose (isRot_cp _ _), M3.id_mul]

theorem bound_id {x : ℝ} (hx : |x| ≤ 1) : bound x = .ok x := by
  obtain ⟨l, u⟩ := abs_le.mp hx
  have c1 : Scalar.lt (Scalar.one + Scalar.SMALL : ℝ) (Scalar.abs x) = false := by
    simp only [rs_lt, rs_abs, rs_one, Scalar.SMALL, Scalar.ofSci, decide_eq_false_iff_not, not_lt]
    have : (0:ℝ) ≤ OfScientific.ofScientific 1 true 7 := by norm_num
    linarith
  have c2 : Scalar.lt (Scalar.one : ℝ) x = false := by simp only [rs_lt, rs_one, decide_eq_false_iff_not, not_lt]; exact u
  have c3 : Scalar.lt x (-(Scalar.one : ℝ)) = false := by simp only [rs_lt, rs_one, decide_eq_false_iff_not, not_lt]; exact l
  simp only [bound, c1, c2, c3, Bool.false_eq_true, if_false]

/-- roots `as − ε`, `π − as − ε` (`ε = atan2(q, p)`) of `p sin χ + q cos χ = R sin as` -/
theorem sin_form (p q R a χ : ℝ) (hR : 0 < R) (hR2 : p ^ 2 + q ^ 2 = R ^ 2)
    (hχ : χ = a - atan2R q p ∨ χ = Real.pi - a - atan2R q p) : p * Real.sin χ + q * Real.cos χ = R * Real.sin a := by
  obtain ⟨hce, hse⟩ := atan2_cs p q R hR hR2
  have hRne := hR.ne'
  have h0 : p = R * Real.cos (atan2R q p) := by rw [hce]; field_simp
  have h1 : q = R * Real.sin (atan2R q p) := by rw [hse]; field_simp
  have hsc := Real.sin_sq_add_cos_sq (atan2R q p)
  rcases hχ with rfl | rfl
  · rw [Real.sin_sub, Real.cos_sub]
    linear_combination (Real.sin a * Real.cos (atan2R q p) - Real.cos a * Real.sin (atan2R q p)) * h0
      + (Real.cos a * Real.cos (atan2R q p) + Real.sin a * Real.sin (atan2R q p)) * h1 + (R * Real.sin a) * hsc
  · rw [Real.sin_sub (Real.pi - a), Real.cos_sub (Real.pi - a), Real.sin_pi_sub, Real.cos_pi_sub]
    linear_combination (Real.sin a * Real.cos (atan2R q p) + Real.cos a * Real.sin (atan2R q p)) * h0
      + (-Real.cos a * Real.cos (atan2R q p) + Real.sin a * Real.sin (atan2R q p)) * h1 + (R * Real.sin a) * hsc

/-- roots `ε + ac`, `ε − ac` (`ε = atan2(p, q)`) of `p sin χ + q cos χ = R cos ac` -/
theorem cos_form (p q R a χ : ℝ) (hR : 0 < R) (hR2 : p ^ 2 + q ^ 2 = R ^ 2)
    (hχ : χ = atan2R p q + a ∨ χ = atan2R p q - a) : p * Real.sin χ + q * Real.cos χ = R * Real.cos a := by
  obtain ⟨hce, hse⟩ := atan2_cs q p R hR (by linarith)
  have hRne := hR.ne'
  have h0 : q = R * Real.cos (atan2R p q) := by rw [hce]; field_simp
  have h1 : p = R * Real.sin (atan2R p q) := by rw [hse]; field_simp
  have hsc := Real.sin_sq_add_cos_sq (atan2R p q)
  rcases hχ with rfl | rfl
  · rw [Real.sin_add, Real.cos_add]
    linear_combination (Real.sin (atan2R p q) * Real.cos a + Real.cos (atan2R p q) * Real.sin a) * h1
      + (Real.cos (atan2R p q) * Real.cos a - Real.sin (atan2R p q) * Real.sin a) * h0 + (R * Real.cos a) * hsc
  · rw [Real.sin_sub, Real.cos_sub]
    linear_combination (Real.sin (atan2R p q) * Real.cos a - Real.cos (atan2R p q) * Real.sin a) * h1
      + (Real.cos (atan2R p q) * Real.cos a + Real.sin (atan2R p q) * Real.sin a) * h0 + (R * Real.cos a) * hsc

/-- **reference + mu + eta** (`__calc_sample_ref_con_mu_eta`) -/
theorem refConMuEta_sound (mu eta psi theta : ℝ) (N : M3 ℝ) (hN : IsRot N)
    (hR : Real.sin eta * Real.cos mu ≠ 0 ∨ Real.sin mu ≠ 0)
    (hclip : |(-(Vref psi theta N).a21) / Real.sqrt (Real.sin eta * Real.sin eta * (Real.cos mu * Real.cos mu) + Real.sin mu * Real.sin mu)| ≤ 1)
    (hne : (Vref psi theta N).a21 ^ 2 ≠ 1) :
    AllOk (RefSpec (Vref psi theta N)) (refConMuEta mu eta psi theta N) := by
  unfold refConMuEta
  simp only [rs_sin, rs_cos, rs_atan2, rs_pi]
  set V := Vref psi theta N with hVdef
  have hV : IsRot V := isRot_Vref psi theta N hN
  have hsq : 0 ≤ Real.sin eta * Real.sin eta * (Real.cos mu * Real.cos mu) + Real.sin mu * Real.sin mu := by
    nlinarith [mul_self_nonneg (Real.sin eta * Real.cos mu), mul_self_nonneg (Real.sin mu)]
  have hrr : Real.sqrt (Real.sin eta * Real.sin eta * (Real.cos mu * Real.cos mu) + Real.sin mu * Real.sin mu)
      = Scalar.hypot (Real.sin eta * Real.cos mu) (Real.sin mu) := by
    simp only [Scalar.hypot, rs_sqrt]; congr 1; ring
  have hr := hypot_pos_of _ _ hR
  have hr2 := hypot_sq (Real.sin eta * Real.cos mu) (Real.sin mu)
  rw [pySqrt_ok hsq, hrr]
  rw [hrr] at hclip
  set r := Scalar.hypot (Real.sin eta * Real.cos mu) (Real.sin mu) with hrdef
  simp only [bind, Except.bind, bound_id hclip]
  unfold tryAssert
  simp only []
  have hrne := hr.ne'
  have finish : ∀ chi : ℝ, Real.sin eta * Real.cos mu * Real.sin chi + Real.sin mu * Real.cos chi = -V.a21 →
      RefSpec V ((phiAndQaz chi eta mu V).1, psi, mu, eta, chi, (phiAndQaz chi eta mu V).2) := by
    intro chi hchi
    apply refSpec_of_emf
    have := phiAndQaz_sound chi eta mu V hV (by linear_combination hchi) hne
    rw [cp] at this
    exact this
  split
  · rename_i hsmall
    -- acos form
    have hac : pyAcos (-V.a21 / r) = .ok (Real.arccos (-V.a21 / r)) := pyAcos_ok hclip
    simp only [hac, pure, Except.pure]
    apply allOk_ok
    intro t ht
    obtain ⟨chi, hchi, rfl⟩ := List.mem_map.mp ht
    simp only [List.mem_cons, List.not_mem_nil, or_false] at hchi
    have := cos_form (Real.sin eta * Real.cos mu) (Real.sin mu) r (Real.arccos (-V.a21 / r)) chi hr hr2 hchi
    rw [Real.cos_arccos (abs_le.mp hclip).1 (abs_le.mp hclip).2] at this
    have hfin := finish chi (by rw [this]; field_simp)
    simpa using hfin
  · have has : pyAsin (-V.a21 / r) = .ok (Real.arcsin (-V.a21 / r)) := pyAsin_ok hclip
    simp only [has, pure, Except.pure]
    apply allOk_ok
    intro t ht
    obtain ⟨chi, hchi, rfl⟩ := List.mem_map.mp ht
    simp only [List.mem_cons, List.not_mem_nil, or_false] at hchi
    have := sin_form (Real.sin eta * Real.cos mu) (Real.sin mu) r (Real.arcsin (-V.a21 / r)) chi hr hr2 hchi
    rw [Real.sin_arcsin (abs_le.mp hclip).1 (abs_le.mp hclip).2] at this
    have hfin := finish chi (by rw [this]; field_simp)
    simpa using hfin

/-- **reference + chi + eta** (`__calc_sample_ref_con_chi_eta`) -/
theorem refConChiEta_sound (chi eta psi theta : ℝ) (N : M3 ℝ) (hN : IsRot N)
    (hR : Real.cos chi ≠ 0 ∨ Real.sin chi * Real.sin eta ≠ 0)
    (hclip : |(-(Vref psi theta N).a21) / Real.sqrt (Real.sin eta * Real.sin eta * (Real.sin chi * Real.sin chi) + Real.cos chi * Real.cos chi)| ≤ 1)
    (hne : (Vref psi theta N).a21 ^ 2 ≠ 1) :
    AllOk (RefSpec (Vref psi theta N)) (refConChiEta chi eta psi theta N) := by
  unfold refConChiEta
  simp only [rs_sin, rs_cos, rs_atan2, rs_pi]
  set V := Vref psi theta N with hVdef
  have hV : IsRot V := isRot_Vref psi theta N hN
  have hsq : 0 ≤ Real.sin eta * Real.sin eta * (Real.sin chi * Real.sin chi) + Real.cos chi * Real.cos chi := by
    nlinarith [mul_self_nonneg (Real.sin eta * Real.sin chi), mul_self_nonneg (Real.cos chi)]
  have hrr : Real.sqrt (Real.sin eta * Real.sin eta * (Real.sin chi * Real.sin chi) + Real.cos chi * Real.cos chi)
      = Scalar.hypot (Real.cos chi) (Real.sin chi * Real.sin eta) := by
    simp only [Scalar.hypot, rs_sqrt]; congr 1; ring
  have hr := hypot_pos_of _ _ hR
  have hr2 := hypot_sq (Real.cos chi) (Real.sin chi * Real.sin eta)
  rw [pySqrt_ok hsq, hrr]
  rw [hrr] at hclip
  set r := Scalar.hypot (Real.cos chi) (Real.sin chi * Real.sin eta) with hrdef
  simp only [bind, Except.bind, bound_id hclip]
  unfold tryAssert
  simp only []
  have hrne := hr.ne'
  have finish : ∀ mu : ℝ, Real.cos chi * Real.sin mu + Real.sin chi * Real.sin eta * Real.cos mu = -V.a21 →
      RefSpec V ((phiAndQaz chi eta mu V).1, psi, mu, eta, chi, (phiAndQaz chi eta mu V).2) := by
    intro mu hmu
    apply refSpec_of_emf
    have := phiAndQaz_sound chi eta mu V hV (by linear_combination hmu) hne
    rw [cp] at this
    exact this
  split
  · have hac : pyAcos (-V.a21 / r) = .ok (Real.arccos (-V.a21 / r)) := pyAcos_ok hclip
    simp only [hac, pure, Except.pure]
    apply allOk_ok
    intro t ht
    obtain ⟨mu, hmu, rfl⟩ := List.mem_map.mp ht
    simp only [List.mem_cons, List.not_mem_nil, or_false] at hmu
    have := cos_form (Real.cos chi) (Real.sin chi * Real.sin eta) r (Real.arccos (-V.a21 / r)) mu hr hr2 hmu
    rw [Real.cos_arccos (abs_le.mp hclip).1 (abs_le.mp hclip).2] at this
    have hfin := finish mu (by rw [this]; field_simp)
    simpa using hfin
  · have has : pyAsin (-V.a21 / r) = .ok (Real.arcsin (-V.a21 / r)) := pyAsin_ok hclip
    simp only [has, pure, Except.pure]
    apply allOk_ok
    intro t ht
    obtain ⟨mu, hmu, rfl⟩ := List.mem_map.mp ht
    simp only [List.mem_cons, List.not_mem_nil, or_false] at hmu
    have := sin_form (Real.cos chi) (Real.sin chi * Real.sin eta) r (Real.arcsin (-V.a21 / r)) mu hr hr2 hmu
    rw [Real.sin_arcsin (abs_le.mp hclip).1 (abs_le.mp hclip).2] at this
    have hfin := finish mu (by rw [this]; field_simp)
    simpa using hfin

/-- **reference + chi + mu** (`__calc_sample_ref_con_chi_mu`) -/
theorem refConChiMu_sound (chi mu psi theta : ℝ) (N : M3 ℝ) (hN : IsRot N)
    (hd : Real.sin chi * Real.cos mu ≠ 0)
    (hclip : |(-(Vref psi theta N).a21 - Real.cos chi * Real.sin mu) / (Real.sin chi * Real.cos mu)| ≤ 1)
    (hne : (Vref psi theta N).a21 ^ 2 ≠ 1) :
    AllOk (RefSpec (Vref psi theta N)) (refConChiMu chi mu psi theta N) := by
  unfold refConChiMu
  simp only [rs_sin, rs_cos, rs_pi]
  set V := Vref psi theta N with hVdef
  have hV : IsRot V := isRot_Vref psi theta N hN
  apply allOk_tryAssert
  intro s hs
  obtain ⟨_, hsin⟩ := boundAsin_ok hclip hs
  apply allOk_ok
  intro t ht
  obtain ⟨eta, heta, rfl⟩ := List.mem_map.mp ht
  simp only [List.mem_cons, List.not_mem_nil, or_false] at heta
  have hse : Real.sin eta = (-V.a21 - Real.cos chi * Real.sin mu) / (Real.sin chi * Real.cos mu) := by
    rcases heta with rfl | rfl <;> simp [hsin, Real.sin_pi_sub]
  have h21 : V.a21 = -(Real.sin chi * Real.sin eta * Real.cos mu + Real.cos chi * Real.sin mu) := by
    have hs1 : Real.sin chi ≠ 0 := left_ne_zero_of_mul hd
    have hc1 : Real.cos mu ≠ 0 := right_ne_zero_of_mul hd
    rw [hse]; field_simp; ring
  have := phiAndQaz_sound chi eta mu V hV h21 hne
  have hfin : RefSpec V ((phiAndQaz chi eta mu V).1, psi, mu, eta, chi, (phiAndQaz chi eta mu V).2) := by
    apply refSpec_of_emf; rw [cp] at this; exact this
  simpa using hfin

/-- two proper rotations that agree on their second row and second column (crossing entry not ±1) are equal -/
theorem rot_eq_of_row1_col1 (A B : M3 ℝ) (hA : IsRot A) (hB : IsRot B) (hne : A.a11 ^ 2 ≠ 1)
    (h10 : A.a10 = B.a10) (h11 : A.a11 = B.a11) (h12 : A.a12 = B.a12) (h01 : A.a01 = B.a01) (h21 : A.a21 = B.a21) : A = B := by
  have key : ∀ M : M3 ℝ, IsRot M →
      M.a00 * (1 - M.a11 ^ 2) = M.a11 * M.a12 * M.a21 * 0 + (-M.a01 * M.a10 * M.a11 - M.a12 * M.a21) ∧
      M.a22 * (1 - M.a11 ^ 2) = -M.a21 * M.a12 * M.a11 - M.a10 * M.a01 ∧
      M.a02 = M.a10 * M.a21 - M.a11 * M.a20 ∧ M.a20 = M.a01 * M.a12 - M.a02 * M.a11 := by
    intro M hM
    have hadj := adj_eq_transpose hM
    have d00 := congrArg M3.a00 hadj; have d22 := congrArg M3.a22 hadj
    have d20 := congrArg M3.a20 hadj; have d02 := congrArg M3.a02 hadj
    simp only [M3.adj, M3.transpose] at d00 d22 d20 d02
    -- d00 : a11 a22 − a12 a21 = a00 ; d22 : a00 a11 − a01 a10 = a22 ; d20 : a10 a21 − a11 a20 = a02 ; d02 : a01 a12 − a02 a11 = a20
    refine ⟨?_, ?_, ?_, ?_⟩
    · linear_combination (-1 : ℝ) * d00 - M.a11 * d22
    · linear_combination (-1 : ℝ) * d22 - M.a11 * d00
    · linear_combination (-1 : ℝ) * d20
    · linear_combination (-1 : ℝ) * d02
  obtain ⟨a1, a2, a3, a4⟩ := key A hA
  obtain ⟨b1, b2, b3, b4⟩ := key B hB
  have hd : (1 - A.a11 ^ 2) ≠ 0 := by intro h; apply hne; linarith
  simp only [← h10, ← h11, ← h12, ← h01, ← h21] at b1 b2 b3 b4
  have e00 : A.a00 = B.a00 := mul_right_cancel₀ hd (by rw [a1, b1])
  have e22 : A.a22 = B.a22 := mul_right_cancel₀ hd (by rw [a2, b2])
  -- a02 and a20 are coupled: a02 = a10 a21 − a11 a20, a20 = a01 a12 − a02 a11 ⇒ a02 (1 − a11²) = a10 a21 − a11 a01 a12
  have e02 : A.a02 = B.a02 := by
    have ha : A.a02 * (1 - A.a11 ^ 2) = A.a10 * A.a21 - A.a11 * A.a01 * A.a12 := by rw [a4] at a3; linear_combination a3
    have hb : B.a02 * (1 - A.a11 ^ 2) = A.a10 * A.a21 - A.a11 * A.a01 * A.a12 := by rw [b4] at b3; linear_combination b3
    exact mul_right_cancel₀ hd (by rw [ha, hb])
  have e20 : A.a20 = B.a20 := by rw [a4, b4, e02]
  ext <;> assumption

/-- `F(qaz)ᵀ·MU·ETA·CHI` -/
def fmec (qaz mu eta chi : ℝ) : M3 ℝ := M3.mul (M3.transpose (Fq qaz)) (mec mu eta chi)
theorem isRot_mec (mu eta chi : ℝ) : IsRot (mec mu eta chi) := IsRot.mul (IsRot.mul (isRot_rotX _) (isRot_rotZ _)) (isRot_rotY _)
theorem isRot_fmec (qaz mu eta chi : ℝ) : IsRot (fmec qaz mu eta chi) := IsRot.mul (C04.isRot_transpose (isRot_Fq _)) (isRot_mec _ _ _)

/-- `__get_chi_and_qaz`: once `V11 = cos μ cos η`, the two `atan2` read-offs give `V = F(qaz)ᵀ·MU·ETA·CHI` -/
theorem chiAndQaz_sound (mu eta : ℝ) (V : M3 ℝ) (hV : IsRot V) (h11 : V.a11 = Real.cos mu * Real.cos eta) (hne : V.a11 ^ 2 ≠ 1)
    (qaz chi : ℝ) (h : chiAndQaz mu eta V = .ok (qaz, chi)) : V = fmec qaz mu eta chi := by
  unfold chiAndQaz at h
  simp only [rs_sin, rs_cos, rs_atan2] at h
  split at h
  · cases h
  · simp only [Except.ok.injEq, Prod.mk.injEq] at h
    obtain ⟨hq, hc⟩ := h
    set A := Real.sin mu with hA
    set B := -(Real.cos mu) * Real.sin eta with hB
    set A' := Real.sin eta with hA'
    set B' := Real.cos eta * Real.sin mu with hB'
    have hse := Real.sin_sq_add_cos_sq eta
    have hsm := Real.sin_sq_add_cos_sq mu
    have hrow : V.a10 ^ 2 + V.a11 ^ 2 + V.a12 ^ 2 = 1 := by
      have := congrArg M3.a11 (rot_mul_transpose hV); simp only [M3.mul, M3.transpose, M3.id, rs_one] at this; linear_combination this
    have hcol : V.a01 ^ 2 + V.a11 ^ 2 + V.a21 ^ 2 = 1 := by
      have := congrArg M3.a11 hV.1; simp only [M3.mul, M3.transpose, M3.id, rs_one] at this; linear_combination this
    have hD : A ^ 2 + B ^ 2 = 1 - V.a11 ^ 2 := by
      rw [h11, hA, hB]; linear_combination hsm + (Real.cos mu ^ 2) * hse
    have hD' : A' ^ 2 + B' ^ 2 = 1 - V.a11 ^ 2 := by
      rw [h11, hA', hB']; linear_combination hse + (Real.cos eta ^ 2) * hsm
    have hDpos : 0 < 1 - V.a11 ^ 2 := by
      have : V.a11 ^ 2 ≤ 1 := by nlinarith [sq_nonneg V.a10, sq_nonneg V.a12]
      exact lt_of_le_of_ne (by linarith) (fun h => hne (by linarith))
    have hx := atan2_cs (B * V.a10 - A * V.a12) (A * V.a10 + B * V.a12) (1 - V.a11 ^ 2) hDpos (by
      have : (B * V.a10 - A * V.a12) ^ 2 + (A * V.a10 + B * V.a12) ^ 2 = (A ^ 2 + B ^ 2) * (V.a10 ^ 2 + V.a12 ^ 2) := by ring
      rw [this, hD]; have : V.a10 ^ 2 + V.a12 ^ 2 = 1 - V.a11 ^ 2 := by linarith
      rw [this]; ring)
    have hqq := atan2_cs (B' * V.a01 - A' * V.a21) (A' * V.a01 + B' * V.a21) (1 - V.a11 ^ 2) hDpos (by
      have : (B' * V.a01 - A' * V.a21) ^ 2 + (A' * V.a01 + B' * V.a21) ^ 2 = (A' ^ 2 + B' ^ 2) * (V.a01 ^ 2 + V.a21 ^ 2) := by ring
      rw [this, hD']; have : V.a01 ^ 2 + V.a21 ^ 2 = 1 - V.a11 ^ 2 := by linarith
      rw [this]; ring)
    rw [hc] at hx
    rw [hq] at hqq
    obtain ⟨hcx, hsx⟩ := hx
    obtain ⟨hcq, hsq⟩ := hqq
    have hne' := hDpos.ne'
    apply rot_eq_of_row1_col1 _ _ hV (isRot_fmec _ _ _ _) hne
    all_goals (simp only [fmec, Fq]; rw [mec_entries]; simp only [M3.mul, M3.transpose])
    · rw [hcx, hsx]; field_simp; rw [hA, hB] at hD ⊢; linear_combination (-V.a10) * hD
    · rw [h11]; ring
    · rw [hcx, hsx]; field_simp; rw [hA, hB] at hD ⊢; linear_combination (-V.a12) * hD
    · rw [hcq, hsq]; field_simp; rw [hA', hB'] at hD' ⊢; linear_combination (-V.a01) * hD'
    · rw [hcq, hsq]; field_simp; rw [hA', hB'] at hD' ⊢; linear_combination (-V.a21) * hD'

theorem transpose_mul3 (a b c : M3 ℝ) : M3.transpose (M3.mul (M3.mul a b) c) = M3.mul (M3.transpose c) (M3.mul (M3.transpose b) (M3.transpose a)) := by
  rw [M3.transpose_mul, M3.transpose_mul]

theorem transpose_transpose' (a : M3 ℝ) : M3.transpose (M3.transpose a) = a := by cases a; rfl

theorem isRot_Vref2 (phi psi theta : ℝ) (N : M3 ℝ) (hN : IsRot N) : IsRot (Vref2 phi psi theta N) := by
  unfold Vref2
  rw [gen_x_rotation, gen_z_rotation, (gen_rot_senses phi).2.2.2.2.2, inv_of_isRot' hN]
  exact IsRot.mul (IsRot.mul (IsRot.mul (isRot_rotZ _) (isRot_rotX _)) (C04.isRot_transpose hN)) (C04.isRot_transpose (isRot_rotZ _))

/-- the second arrangement of the reference equation: `THETA·PSI·N_phi⁻¹·PHIᵀ = F(qaz)ᵀ·MU·ETA·CHI` gives `Z·V_ref = F(qaz)` -/
theorem refSpec_of_fmec (N : M3 ℝ) (hN : IsRot N) (qaz psi theta mu eta chi phi : ℝ)
    (h : Vref2 phi psi theta N = fmec qaz mu eta chi) : RefSpec (Vref psi theta N) (qaz, psi, mu, eta, chi, phi) := by
  unfold RefSpec
  simp only []
  -- Vrefᵀ = Vref2 · PHI
  have hT : M3.transpose (Vref psi theta N) = M3.mul (Vref2 phi psi theta N) (rotZ (-phi)) := by
    unfold Vref Vref2
    rw [gen_x_rotation, gen_z_rotation, (gen_rot_senses phi).2.2.2.2.2, inv_of_isRot' hN, transpose_mul3, transpose_transpose', transpose_transpose']
    simp only [M3.mul_assoc']
    rw [(isRot_rotZ (-phi)).1, M3.mul_id]
  have hZ : C04.Z mu eta chi phi = M3.mul (mec mu eta chi) (rotZ (-phi)) := Z_eq_mec_phi mu eta chi phi
  -- (Z·Vref)ᵀ = Vrefᵀ·Zᵀ = Vref2·PHI·PHIᵀ·mecᵀ = Fᵀ
  have : M3.transpose (M3.mul (C04.Z mu eta chi phi) (Vref psi theta N)) = M3.transpose (Fq qaz) := by
    rw [M3.transpose_mul, hT, hZ, M3.transpose_mul, h, fmec]
    simp only [M3.mul_assoc']
    rw [← M3.mul_assoc' (rotZ (-phi)), rot_mul_transpose (isRot_rotZ _), M3.id_mul, rot_mul_transpose (isRot_mec _ _ _), M3.mul_id]
  have := congrArg M3.transpose this
  rwa [transpose_transpose', transpose_transpose'] at this

/-- **reference + mu + phi** (`__calc_sample_ref_con_mu_phi`) -/
theorem refConMuPhi_sound (mu phi psi theta : ℝ) (N : M3 ℝ) (hN : IsRot N)
    (hclip : |(Vref2 phi psi theta N).a11 / Real.cos mu| ≤ 1) (hne : (Vref2 phi psi theta N).a11 ^ 2 ≠ 1) :
    AllOk (RefSpec (Vref psi theta N)) (refConMuPhi mu phi psi theta N) := by
  unfold refConMuPhi
  simp only [rs_cos]
  set V := Vref2 phi psi theta N with hVdef
  have hV : IsRot V := isRot_Vref2 phi psi theta N hN
  split
  · exact allOk_error _
  · rename_i hs
    have hcne : Real.cos mu ≠ 0 := not_small_ne_zero (by simpa using hs)
    apply allOk_tryAssert
    intro c hc
    obtain ⟨_, hcos⟩ := boundAcos_ok hclip hc
    apply allOk_forM'
    intro eta heta
    simp only [List.mem_cons, List.not_mem_nil, or_false] at heta
    have hce : Real.cos eta = V.a11 / Real.cos mu := by rcases heta with rfl | rfl <;> simp [hcos]
    have h11 : V.a11 = Real.cos mu * Real.cos eta := by rw [hce]; field_simp
    apply allOk_bind
    rintro ⟨qaz, chi⟩ hqc
    apply allOk_ok
    intro t ht
    simp only [List.mem_singleton] at ht
    subst ht
    exact refSpec_of_fmec N hN qaz psi theta mu eta chi phi (chiAndQaz_sound mu eta V hV h11 hne qaz chi hqc)

/-- **reference + eta + phi** (`__calc_sample_ref_con_eta_phi`) -/
theorem refConEtaPhi_sound (eta phi psi theta : ℝ) (N : M3 ℝ) (hN : IsRot N)
    (hclip : |(Vref2 phi psi theta N).a11 / Real.cos eta| ≤ 1) (hne : (Vref2 phi psi theta N).a11 ^ 2 ≠ 1) :
    AllOk (RefSpec (Vref psi theta N)) (refConEtaPhi eta phi psi theta N) := by
  unfold refConEtaPhi
  simp only [rs_cos]
  set V := Vref2 phi psi theta N with hVdef
  have hV : IsRot V := isRot_Vref2 phi psi theta N hN
  split
  · exact allOk_error _
  · rename_i hs
    have hcne : Real.cos eta ≠ 0 := not_small_ne_zero (by simpa using hs)
    apply allOk_tryAssert
    intro c hc
    obtain ⟨_, hcos⟩ := boundAcos_ok hclip hc
    apply allOk_forM'
    intro mu hmu
    simp only [List.mem_cons, List.not_mem_nil, or_false] at hmu
    have hcm : Real.cos mu = V.a11 / Real.cos eta := by rcases hmu with rfl | rfl <;> simp [hcos]
    have h11 : V.a11 = Real.cos mu * Real.cos eta := by rw [hcm]; field_simp
    apply allOk_bind
    rintro ⟨qaz, chi⟩ hqc
    apply allOk_ok
    intro t ht
    simp only [List.mem_singleton] at ht
    subst ht
    exact refSpec_of_fmec N hN qaz psi theta mu eta chi phi (chiAndQaz_sound mu eta V hV h11 hne qaz chi hqc)

/-- generic-branch side conditions of the six reference + two-sample solvers -/
def Samp2RefGeneric (s : Samp2Ref ℝ) (psi theta : ℝ) (N : M3 ℝ) : Prop :=
  match s with
  | .chiPhi _ _ => True
  | .muEta mu eta => (Real.sin eta * Real.cos mu ≠ 0 ∨ Real.sin mu ≠ 0) ∧
      |(-(Vref psi theta N).a21) / Real.sqrt (Real.sin eta * Real.sin eta * (Real.cos mu * Real.cos mu) + Real.sin mu * Real.sin mu)| ≤ 1 ∧
      (Vref psi theta N).a21 ^ 2 ≠ 1
  | .chiEta chi eta => (Real.cos chi ≠ 0 ∨ Real.sin chi * Real.sin eta ≠ 0) ∧
      |(-(Vref psi theta N).a21) / Real.sqrt (Real.sin eta * Real.sin eta * (Real.sin chi * Real.sin chi) + Real.cos chi * Real.cos chi)| ≤ 1 ∧
      (Vref psi theta N).a21 ^ 2 ≠ 1
  | .chiMu chi mu => Real.sin chi * Real.cos mu ≠ 0 ∧
      |(-(Vref psi theta N).a21 - Real.cos chi * Real.sin mu) / (Real.sin chi * Real.cos mu)| ≤ 1 ∧ (Vref psi theta N).a21 ^ 2 ≠ 1
  | .muPhi mu phi => |(Vref2 phi psi theta N).a11 / Real.cos mu| ≤ 1 ∧ (Vref2 phi psi theta N).a11 ^ 2 ≠ 1
  | .etaPhi eta phi => |(Vref2 phi psi theta N).a11 / Real.cos eta| ≤ 1 ∧ (Vref2 phi psi theta N).a11 ^ 2 ≠ 1

/-- **reference + two sample angles, all six branches** (`_calc_sample_con_two_sample_and_reference`): every returned tuple satisfies
    `Z·N_phi·PSIᵀ·THETAᵀ = F(qaz)` for its own qaz -/
theorem twoSampleReference_sound (s : Samp2Ref ℝ) (psi theta : ℝ) (N : M3 ℝ) (hN : IsRot N) (hgen : Samp2RefGeneric s psi theta N) :
    AllOk (RefSpec (Vref psi theta N)) (twoSampleReference s psi theta N) := by
  cases s with
  | chiPhi chi phi => exact refConChiPhi_sound chi phi psi theta N hN
  | muEta mu eta => exact refConMuEta_sound mu eta psi theta N hN hgen.1 hgen.2.1 hgen.2.2
  | chiEta chi eta => exact refConChiEta_sound chi eta psi theta N hN hgen.1 hgen.2.1 hgen.2.2
  | chiMu chi mu => exact refConChiMu_sound chi mu psi theta N hN hgen.1 hgen.2.1 hgen.2.2
  | muPhi mu phi => exact refConMuPhi_sound mu phi psi theta N hN hgen.1 hgen.2
  | etaPhi eta phi => exact refConEtaPhi_sound eta phi psi theta N hN hgen.1 hgen.2

/-! ## three sample angles given (`calc_func.py`): the fourth from the y-component, qaz read off the result -/

theorem Z_mulVec (mu eta chi phi : ℝ) (h : V3 ℝ) : M3.mulVec (C04.Z mu eta chi phi) h =
    ⟨(Real.cos eta * Real.cos chi * Real.cos phi - Real.sin eta * Real.sin phi) * h.x + (Real.cos eta * Real.cos chi * Real.sin phi + Real.sin eta * Real.cos phi) * h.y
        + Real.cos eta * Real.sin chi * h.z,
     Real.cos mu * ((-Real.sin eta * Real.cos chi * Real.cos phi - Real.cos eta * Real.sin phi) * h.x + (-Real.sin eta * Real.cos chi * Real.sin phi + Real.cos eta * Real.cos phi) * h.y
        - Real.sin eta * Real.sin chi * h.z) - Real.sin mu * (-Real.sin chi * Real.cos phi * h.x - Real.sin chi * Real.sin phi * h.y + Real.cos chi * h.z),
     Real.sin mu * ((-Real.sin eta * Real.cos chi * Real.cos phi - Real.cos eta * Real.sin phi) * h.x + (-Real.sin eta * Real.cos chi * Real.sin phi + Real.cos eta * Real.cos phi) * h.y
        - Real.sin eta * Real.sin chi * h.z) + Real.cos mu * (-Real.sin chi * Real.cos phi * h.x - Real.sin chi * Real.sin phi * h.y + Real.cos chi * h.z)⟩ := by
  rw [Z_eq_mu_ecp, ecp_entries]
  ext <;> simp only [M3.mulVec, M3.mul, rotX, rs_cos, rs_sin, rs_one, rs_zero] <;> ring

theorem normalised_unit (h : V3 ℝ) (hh : V3.norm h = 1) : V3.normalised h = h := by
  rw [normalised_eq_unit h (by rw [hh]; norm_num), unit_of_norm_one h hh]

/-- the tuple with the free axis set to `v` -/
def assign (free : Free) (mu eta chi phi v : ℝ) : STuple ℝ :=
  match free with
  | .mu => (v, eta, chi, phi) | .eta => (mu, v, chi, phi) | .chi => (mu, eta, v, phi) | .phi => (mu, eta, chi, v)

/-- `__get_last_sample_angle`: every returned value of the free axis puts the y-component of `Z·ĥ` at `−sin θ` -/
theorem lastSampleAngle_sound (free : Free) (mu eta chi phi : ℝ) (h : V3 ℝ) (hh : V3.norm h = 1) (theta : ℝ)
    (hclip : |(lastABC free mu eta chi phi h theta).2.2 / Scalar.hypot (lastABC free mu eta chi phi h theta).1 (lastABC free mu eta chi phi h theta).2.1| ≤ 1)
    (hgen : Scalar.isSmall (Real.arccos ((lastABC free mu eta chi phi h theta).2.2 /
      Scalar.hypot (lastABC free mu eta chi phi h theta).1 (lastABC free mu eta chi phi h theta).2.1)) = false)
    (l : List ℝ) (hl : lastSampleAngle free mu eta chi phi h theta = .ok l) :
    ∀ v ∈ l, (M3.mulVec (C04.Z (assign free mu eta chi phi v).1 (assign free mu eta chi phi v).2.1 (assign free mu eta chi phi v).2.2.1
      (assign free mu eta chi phi v).2.2.2) h).y = -Real.sin theta := by
  unfold lastSampleAngle at hl
  set ABC := lastABC free mu eta chi phi h theta with hABC
  obtain ⟨A, B, C⟩ := ABC
  simp only [] at hl hclip hgen
  split at hl
  · cases hl
  · rename_i hAB
    have hr0 : B ≠ 0 ∨ A ≠ 0 := by
      by_contra hc; push_neg at hc
      apply hAB; simp [hc.1, hc.2, isSmall_real]; norm_num
    have hr := hypot_pos_of B A hr0
    have hr2 := hypot_sq B A
    have hhy : Scalar.hypot A B = Scalar.hypot B A := by simp only [Scalar.hypot, rs_sqrt]; congr 1; ring
    rw [hhy] at hclip hgen hl
    obtain ⟨c, hc, hl⟩ := bind_ok_inv hl
    obtain ⟨hcv, hcos⟩ := boundAcos_ok hclip hc
    rw [← hcv] at hgen
    simp only [rs_atan2, hgen, Bool.false_eq_true, if_false, pure, Except.pure, Except.ok.injEq] at hl
    intro v hv
    rw [← hl] at hv
    simp only [List.mem_cons, List.not_mem_nil, or_false] at hv
    have ha := acos_roots B A (Scalar.hypot B A) c v hr hr2 hv
    rw [hcos] at ha
    have hrne := hr.ne'
    have hBA : B * Real.cos v + A * Real.sin v = C := by rw [ha]; field_simp
    -- identify A, B, C
    have hABC' : lastABC free mu eta chi phi h theta = (A, B, C) := hABC.symm
    unfold lastABC at hABC'
    rw [normalised_unit h hh] at hABC'
    rw [Z_mulVec]
    cases free <;> simp only [assign, Prod.mk.injEq, rs_cos, rs_sin] at hABC' ⊢ <;> obtain ⟨eA, eB, eC⟩ := hABC' <;> rw [← eA, ← eB, ← eC] at hBA
    · linear_combination hBA
    · linear_combination hBA
    · linear_combination hBA
    · linear_combination hBA

/-- `__get_qaz_value`: when the y-component of `Z·ĥ` is `−sin θ`, the qaz read off its x- and z-components completes the sample relation -/
theorem qazValue_sound (mu eta chi phi : ℝ) (h : V3 ℝ) (hh : V3.norm h = 1) (theta : ℝ) (hct : Scalar.isSmall (Real.cos theta) = false)
    (hy : (M3.mulVec (C04.Z mu eta chi phi) h).y = -Real.sin theta) :
    M3.mulVec (C04.Z mu eta chi phi) h = qDir theta (qazValue mu eta chi phi h theta) := by
  set w := M3.mulVec (C04.Z mu eta chi phi) h with hw
  have hwn : w.x ^ 2 + w.y ^ 2 + w.z ^ 2 = 1 := by
    have h1 := C08.norm_rot (C04.Z mu eta chi phi) (C04.isRot_Z mu eta chi phi) h
    have h2 := C07.norm_sq w
    rw [hw, h1, hh] at h2
    rw [hw]; simp only [V3.dot] at h2; linear_combination (-1 : ℝ) * h2
  -- the arguments of the atan2 are sgn·w.x and sgn·w.z
  have hq : qazValue mu eta chi phi h theta = atan2R ((Scalar.sign (Real.cos theta) : ℝ) * w.x) ((Scalar.sign (Real.cos theta) : ℝ) * w.z) := by
    unfold qazValue
    rw [normalised_unit h hh]
    simp only [rs_cos, rs_sin, rs_atan2]
    have hx : w.x = h.z * Real.cos eta * Real.sin chi + (h.x * Real.cos chi * Real.cos eta + h.y * Real.sin eta) * Real.cos phi
        + (h.y * Real.cos chi * Real.cos eta - h.x * Real.sin eta) * Real.sin phi := by rw [hw, Z_mulVec]; ring
    have hz : w.z = -h.z * Real.sin chi * Real.sin eta * Real.sin mu + h.z * Real.cos chi * Real.cos mu
        - (h.x * Real.cos mu * Real.sin chi + (h.x * Real.cos chi * Real.sin eta - h.y * Real.cos eta) * Real.sin mu) * Real.cos phi
        - (h.y * Real.cos mu * Real.sin chi + (h.y * Real.cos chi * Real.sin eta + h.x * Real.cos eta) * Real.sin mu) * Real.sin phi := by rw [hw, Z_mulVec]; ring
    rw [hx, hz]
  rw [hq]
  have hcne := not_small_ne_zero hct
  obtain ⟨hsg, hsg2⟩ := sign_facts (Real.cos theta) hct
  set sg := (Scalar.sign (Real.cos theta) : ℝ) with hsgdef
  have habs : 0 < |Real.cos theta| := abs_pos.mpr hcne
  have hsc := Real.sin_sq_add_cos_sq theta
  have hsqabs : |Real.cos theta| ^ 2 = Real.cos theta ^ 2 := sq_abs _
  have hcos : Real.cos theta = sg * |Real.cos theta| := by rw [← hsg]; linear_combination (-(Real.cos theta)) * hsg2
  generalize |Real.cos theta| = A at habs hsqabs hcos hsg
  have hR : (sg * w.z) ^ 2 + (sg * w.x) ^ 2 = A ^ 2 := by
    rw [hsqabs]; rw [hy] at hwn
    linear_combination (w.x ^ 2 + w.z ^ 2) * hsg2 + hwn - hsc
  obtain ⟨hcq, hsq⟩ := atan2_cs (sg * w.z) (sg * w.x) A habs hR
  have habsne := habs.ne'
  ext
  · simp only [qDir]; rw [hsq, hcos]; field_simp; linear_combination (-w.x) * hsg2
  · simp only [qDir]; exact hy
  · simp only [qDir]; rw [hcq, hcos]; field_simp; linear_combination (-w.z) * hsg2

/-- **three sample angles given** (`_calc_three_sample`, sample part): with the fourth angle from `__get_last_sample_angle` and qaz from
    `__get_qaz_value`, the sample relation holds exactly (the detector angles then come from `detFromQaz`, `threeSample_detector_sound`) -/
theorem threeSample_sample_sound (free : Free) (mu eta chi phi : ℝ) (h : V3 ℝ) (hh : V3.norm h = 1) (theta : ℝ)
    (hct : Scalar.isSmall (Real.cos theta) = false)
    (hclip : |(lastABC free mu eta chi phi h theta).2.2 / Scalar.hypot (lastABC free mu eta chi phi h theta).1 (lastABC free mu eta chi phi h theta).2.1| ≤ 1)
    (hgen : Scalar.isSmall (Real.arccos ((lastABC free mu eta chi phi h theta).2.2 /
      Scalar.hypot (lastABC free mu eta chi phi h theta).1 (lastABC free mu eta chi phi h theta).2.1)) = false)
    (l : List ℝ) (hl : lastSampleAngle free mu eta chi phi h theta = .ok l) :
    ∀ v ∈ l, let t := assign free mu eta chi phi v
      SampleSpec h theta (qazValue t.1 t.2.1 t.2.2.1 t.2.2.2 h theta) t := by
  intro v hv
  have hy := lastSampleAngle_sound free mu eta chi phi h hh theta hclip hgen l hl v hv
  exact qazValue_sound _ _ _ _ h hh theta hct hy

end
end C01
