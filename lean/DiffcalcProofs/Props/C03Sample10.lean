import DiffcalcProofs.Props.C03Sample9
/-!
# C03 — completeness of `__calc_sample_con_eta_chi` (detector + eta + chi given): roots of phi complete, mu pinned by the relation
-/
namespace C03
open M3 Solver Scalar PyOps C01
noncomputable section

/-- the body of the loop over the phi roots in `__calc_sample_con_eta_chi` -/
def etaChiInner (eta chi qaz theta : ℝ) (N_phi : M3 ℝ) (phi : ℝ) : Py (List (STuple ℝ)) :=
  let A10 := N_phi.a00 * cos phi * sin chi + N_phi.a10 * sin chi * sin phi - N_phi.a20 * cos chi
  let B10 := -N_phi.a20 * sin chi * sin eta
              - (cos chi * cos phi * sin eta + cos eta * sin phi) * N_phi.a00
              - (cos chi * sin eta * sin phi - cos eta * cos phi) * N_phi.a10
  let V10 := -(sin theta)
  let A20 := B10
  let B20 := -N_phi.a00 * cos phi * sin chi - N_phi.a10 * sin chi * sin phi + N_phi.a20 * cos chi
  let V20 := cos qaz * cos theta
  let sin_mu := (V10 * B20 - V20 * B10) * sign (A10 * B20 - A20 * B10)
  let cos_mu := (V10 * A20 - V20 * A10) * sign (B10 * A20 - B20 * A10)
  if isSmall sin_mu && isSmall cos_mu then .error .dce
  else .ok [(atan2 sin_mu cos_mu, eta, chi, phi)]

theorem etaChiInner_shape (eta chi qaz theta : ℝ) (N : M3 ℝ) (phi : ℝ) (l : List (STuple ℝ)) (h : etaChiInner eta chi qaz theta N phi = .ok l) :
    ∃ m, l = [(m, eta, chi, phi)] := by
  unfold etaChiInner at h
  simp only [] at h
  split at h
  · cases h
  · simp only [Except.ok.injEq] at h
    exact ⟨_, h.symm⟩

/-- **completeness of `__calc_sample_con_eta_chi`** -/
theorem sampleConEtaChi_complete (eta chi qaz theta : ℝ) (N : M3 ℝ) (hN : N.a00 ^ 2 + N.a10 ^ 2 + N.a20 ^ 2 = 1)
    (mu0 phi0 : ℝ) (hS : SampleSpec ⟨N.a00, N.a10, N.a20⟩ theta qaz (mu0, eta, chi, phi0))
    (hrho : (1e-7 : ℝ) < Real.sin theta ^ 2 + (Real.cos qaz * Real.cos theta) ^ 2)
    (hAB : (Scalar.isSmall (N.a10 * Real.cos chi * Real.cos eta - N.a00 * Real.sin eta) &&
            Scalar.isSmall (N.a00 * Real.cos chi * Real.cos eta + N.a10 * Real.sin eta)) = false)
    (hgen : Scalar.isSmall (Real.arccos ((Real.cos theta * Real.sin qaz - N.a20 * Real.cos eta * Real.sin chi) /
              Scalar.hypot (N.a10 * Real.cos chi * Real.cos eta - N.a00 * Real.sin eta) (N.a00 * Real.cos chi * Real.cos eta + N.a10 * Real.sin eta))) = false)
    (hall : ∀ phi ∈ [Real.arccos ((Real.cos theta * Real.sin qaz - N.a20 * Real.cos eta * Real.sin chi) /
              Scalar.hypot (N.a10 * Real.cos chi * Real.cos eta - N.a00 * Real.sin eta) (N.a00 * Real.cos chi * Real.cos eta + N.a10 * Real.sin eta))
            + atan2R (N.a10 * Real.cos chi * Real.cos eta - N.a00 * Real.sin eta) (N.a00 * Real.cos chi * Real.cos eta + N.a10 * Real.sin eta),
          -Real.arccos ((Real.cos theta * Real.sin qaz - N.a20 * Real.cos eta * Real.sin chi) /
              Scalar.hypot (N.a10 * Real.cos chi * Real.cos eta - N.a00 * Real.sin eta) (N.a00 * Real.cos chi * Real.cos eta + N.a10 * Real.sin eta))
            + atan2R (N.a10 * Real.cos chi * Real.cos eta - N.a00 * Real.sin eta) (N.a00 * Real.cos chi * Real.cos eta + N.a10 * Real.sin eta)],
        ∃ t, etaChiInner eta chi qaz theta N phi = .ok [t])
    (hne : ∀ phi, SameAngle phi phi0 → (M3.mulVec (ecp eta chi phi) ⟨N.a00, N.a10, N.a20⟩).y ^ 2 + (M3.mulVec (ecp eta chi phi) ⟨N.a00, N.a10, N.a20⟩).z ^ 2 ≠ 0) :
    ∃ l, sampleConEtaChi eta chi qaz theta N = .ok l ∧
      ∃ t ∈ l, SameAngle t.1 mu0 ∧ t.2.1 = eta ∧ t.2.2.1 = chi ∧ SameAngle t.2.2.2 phi0 := by
  have hS' := hS
  unfold SampleSpec at hS'
  simp only [] at hS'
  have hmid := mid_of_sampleSpec mu0 eta chi phi0 _ _ hS'
  have hx0 := congrArg V3.x hmid
  simp only [M3.mulVec, M3.mul, M3.transpose, rotX, rotZ, rotY, qDir, rs_cos, rs_sin, rs_one, rs_zero, Real.cos_neg, Real.sin_neg] at hx0
  obtain ⟨A, hAdef⟩ : ∃ A, A = N.a10 * Real.cos chi * Real.cos eta - N.a00 * Real.sin eta := ⟨_, rfl⟩
  obtain ⟨B, hBdef⟩ : ∃ B, B = N.a00 * Real.cos chi * Real.cos eta + N.a10 * Real.sin eta := ⟨_, rfl⟩
  have hx : B * Real.cos phi0 + A * Real.sin phi0 + N.a20 * Real.cos eta * Real.sin chi = Real.cos theta * Real.sin qaz := by
    rw [hAdef, hBdef]; linear_combination hx0
  have hr0 : B ≠ 0 ∨ A ≠ 0 := by
    by_contra hc; push Not at hc
    rw [← hAdef, ← hBdef, hc.1, hc.2] at hAB
    simp [isSmall_real] at hAB; norm_num at hAB
  have hr := hypot_pos_of B A hr0
  have hr2 := hypot_sq B A
  have hhy : Scalar.hypot A B = Scalar.hypot B A := by simp only [Scalar.hypot, rs_sqrt]; congr 1; ring
  obtain ⟨r, hrdef⟩ : ∃ r, r = Scalar.hypot B A := ⟨_, rfl⟩
  rw [← hrdef] at hr hr2
  have hrne := hr.ne'
  obtain ⟨hce, hse⟩ := atan2_cs B A r hr hr2
  obtain ⟨ks, hksdef⟩ : ∃ ks, ks = atan2R A B := ⟨_, rfl⟩
  rw [← hksdef] at hce hse
  have hB : B = r * Real.cos ks := by rw [hce]; field_simp
  have hA : A = r * Real.sin ks := by rw [hse]; field_simp
  have hcos : Real.cos (phi0 - ks) = (Real.cos theta * Real.sin qaz - N.a20 * Real.cos eta * Real.sin chi) / r := by
    rw [Real.cos_sub]
    have hk : B * Real.cos phi0 + A * Real.sin phi0 = r * (Real.cos phi0 * Real.cos ks + Real.sin phi0 * Real.sin ks) := by
      conv_lhs => rw [hB, hA]
      ring
    field_simp
    linear_combination hx - hk
  have hclip : |(Real.cos theta * Real.sin qaz - N.a20 * Real.cos eta * Real.sin chi) / r| ≤ 1 := by rw [← hcos]; exact Real.abs_cos_le_one _
  subst hrdef hAdef hBdef
  rw [← hhy] at hclip hcos
  have hsound := sampleConEtaChi_sound eta chi qaz theta N hN hrho hclip hgen
  obtain ⟨c, hc⟩ := C11.boundAcos_ok hclip
  obtain ⟨hcv, _⟩ := C01.boundAcos_ok hclip hc
  have hlist : ∃ l, sampleConEtaChi eta chi qaz theta N = .ok l ∧
      ∀ phi ∈ [c + ks, -c + ks], ∃ t ∈ l, t.2.1 = eta ∧ t.2.2.1 = chi ∧ t.2.2.2 = phi := by
    have hform : sampleConEtaChi eta chi qaz theta N = forM' [c + ks, -c + ks] (etaChiInner eta chi qaz theta N) := by
      unfold sampleConEtaChi
      simp only [rs_cos, rs_sin, rs_atan2, hAB, Bool.false_eq_true, if_false]
      unfold tryAssert
      rw [hc]
      simp only []
      rw [hcv, hgen]
      simp only [Bool.false_eq_true, if_false, ← hksdef]
      rfl
    rw [hform]
    have hall' : ∀ phi ∈ [c + ks, -c + ks], ∃ t, etaChiInner eta chi qaz theta N phi = .ok [t] := by
      intro phi hphi
      apply hall phi
      rw [hcv, hksdef] at hphi
      exact hphi
    obtain ⟨l, hl, hmem⟩ := forM'_complete [c + ks, -c + ks] (etaChiInner eta chi qaz theta N)
      (fun phi hphi => by obtain ⟨t, ht⟩ := hall' phi hphi; exact ⟨[t], ht⟩)
    refine ⟨l, hl, ?_⟩
    intro phi hphi
    obtain ⟨t, ht⟩ := hall' phi hphi
    obtain ⟨m, hm⟩ := etaChiInner_shape eta chi qaz theta N phi [t] ht
    simp only [List.cons.injEq, and_true] at hm
    exact ⟨t, hmem phi hphi [t] ht t (by simp), by rw [hm], by rw [hm], by rw [hm]⟩
  obtain ⟨l, hl, hroots⟩ := hlist
  refine ⟨l, hl, ?_⟩
  obtain ⟨phi', hm, hsame⟩ : ∃ phi', phi' ∈ [c + ks, -c + ks] ∧ SameAngle phi' phi0 := by
    rw [hcv]
    rcases acos_roots_complete (phi0 - ks) _ hclip hcos with h | h
    · exact ⟨_, List.mem_cons.mpr (Or.inl rfl), sameAngle_sub_add phi0 ks _ h⟩
    · exact ⟨_, List.mem_cons.mpr (Or.inr (List.mem_cons.mpr (Or.inl rfl))), sameAngle_sub_add phi0 ks _ h⟩
  obtain ⟨t, htl, ht2, ht3, ht4⟩ := hroots phi' hm
  have hSt := hsound l hl t htl
  obtain ⟨tm, te, tc, tp⟩ := t
  simp only [] at ht2 ht3 ht4
  subst ht2 ht3 ht4
  refine ⟨_, htl, ?_, rfl, rfl, hsame⟩
  unfold SampleSpec at hSt
  simp only [] at hSt ⊢
  have hS0 : M3.mulVec (C04.Z mu0 te tc tp) ⟨N.a00, N.a10, N.a20⟩ = qDir theta qaz := by
    rw [Z_congr4 mu0 mu0 te te tc tc tp phi0 (sameAngle_refl _) (sameAngle_refl _) (sameAngle_refl _) hsame]; exact hS'
  exact mu_unique tm mu0 te tc tp _ _ hSt hS0 (hne tp hsame)
end
end C03
