import DiffcalcProofs.Props.C01
import DiffcalcProofs.Props.C11
/-!
# C03 — any regular physical position is recovered from its own hkl and constraints (partial)

Full statement: for every implemented mode and every position `P` that is a regular point of the mode, the list returned for
`(hkl(P), constraints read off P)` contains `P` modulo 360°.

Proved here (all over the reals):
* the root-enumeration lemmas on which every branch relies (`asin_roots_complete`, `acos_roots_complete`): the pairs
  `x, π − x` and `±x` the code enumerates are ALL solutions modulo 2π — no branch can be dropped silently at this level;
* `detFromQaz_complete`: the detector layer from qaz returns every `(delta, nu)` satisfying the detector relation;
* `filter_keeps_exact`, `hklMatches_exact`: a candidate that satisfies the constraints and maps to hkl exactly survives the
  read-back filter and the guard;
* `allOrNothing`: `get_position` returns the filtered list iff EVERY element of it passes the guard — so completeness of a
  mode needs soundness of every sibling candidate (which is how the `det + eta + phi` defect manifested).
Branch completeness of the sample layers is not proved; it is covered by candidate-level correspondence and the round-trip oracle.
-/
namespace C03
open Solver PyOps
noncomputable section

/-- two angles are equal modulo 2π (stated through sine and cosine) -/
def SameAngle (a b : ℝ) : Prop := Real.sin a = Real.sin b ∧ Real.cos a = Real.cos b

/-- every solution of `sin t = x` is `asin x` or `π − asin x` modulo 2π -/
theorem asin_roots_complete (t x : ℝ) (hx : |x| ≤ 1) (h : Real.sin t = x) :
    SameAngle t (Real.arcsin x) ∨ SameAngle t (Real.pi - Real.arcsin x) := by
  have hs : Real.sin (Real.arcsin x) = x := Real.sin_arcsin (abs_le.mp hx).1 (abs_le.mp hx).2
  have hc : 0 ≤ Real.cos (Real.arcsin x) := Real.cos_arcsin_nonneg x
  have hsq : Real.cos t ^ 2 = Real.cos (Real.arcsin x) ^ 2 := by
    have h1 := Real.sin_sq_add_cos_sq t
    have h2 := Real.sin_sq_add_cos_sq (Real.arcsin x)
    rw [h] at h1; rw [hs] at h2; linarith
  rcases sq_eq_sq_iff_eq_or_eq_neg.mp hsq with h1 | h1
  · left; exact ⟨by rw [h, hs], h1⟩
  · right; exact ⟨by rw [Real.sin_pi_sub, h, hs], by rw [Real.cos_pi_sub, h1]⟩

/-- every solution of `cos t = x` is `acos x` or `−acos x` modulo 2π -/
theorem acos_roots_complete (t x : ℝ) (hx : |x| ≤ 1) (h : Real.cos t = x) :
    SameAngle t (Real.arccos x) ∨ SameAngle t (-Real.arccos x) := by
  have hc : Real.cos (Real.arccos x) = x := Real.cos_arccos (abs_le.mp hx).1 (abs_le.mp hx).2
  have hsq : Real.sin t ^ 2 = Real.sin (Real.arccos x) ^ 2 := by
    have h1 := Real.sin_sq_add_cos_sq t
    have h2 := Real.sin_sq_add_cos_sq (Real.arccos x)
    rw [h] at h1; rw [hc] at h2; linarith
  rcases sq_eq_sq_iff_eq_or_eq_neg.mp hsq with h1 | h1
  · left; exact ⟨h1, by rw [h, hc]⟩
  · right; exact ⟨by rw [Real.sin_neg, h1], by rw [Real.cos_neg, h, hc]⟩

/-- **completeness of the detector layer**: any `(delta, nu)` satisfying the detector relation for the given `qaz`
    (with `cos delta` away from the code's threshold) is among the yielded tuples, modulo 2π -/
theorem detFromQaz_complete (delta nu qaz theta : ℝ) (hD : C01.DetSpec delta nu qaz theta)
    (hns : Scalar.isSmall (Real.cos delta) = false) :
    ∃ t ∈ detFromQaz qaz theta, SameAngle t.1 delta ∧ SameAngle t.2.1 nu ∧ t.2.2 = qaz := by
  obtain ⟨h1, h2, h3⟩ := hD
  set x := Real.sin qaz * Real.sin (2 * theta) with hxdef
  have hsx : Real.sin delta = x := by rw [h1, hxdef]; ring
  have hxabs : |x| ≤ 1 := by rw [← hsx]; exact Real.abs_sin_le_one delta
  set a := Real.arcsin x with ha
  have hsa : Real.sin a = x := Real.sin_arcsin (abs_le.mp hxabs).1 (abs_le.mp hxabs).2
  have hca : Real.cos a = |Real.cos delta| := by
    have hnn : 0 ≤ Real.cos a := Real.cos_arcsin_nonneg x
    have hsq : Real.cos a ^ 2 = Real.cos delta ^ 2 := by
      have e1 := Real.sin_sq_add_cos_sq a
      have e2 := Real.sin_sq_add_cos_sq delta
      rw [hsa] at e1; rw [hsx] at e2; linarith
    rw [← Real.sqrt_sq hnn, hsq, Real.sqrt_sq_eq_abs]
  have hnsa : Scalar.isSmall (Real.cos a) = false := by
    rw [hca, C01.isSmall_real, abs_abs]
    rw [C01.isSmall_real] at hns
    exact hns
  -- the delta list is the two-element one
  let f : ℝ → ℝ × ℝ × ℝ := fun d =>
        (d, (if Scalar.isSmall (Real.cos d) then (0 : ℝ) else
              atan2R (Scalar.sign (Real.cos d) * Real.sin (2 * theta) * Real.cos qaz) (Scalar.sign (Real.cos d) * Real.cos (2 * theta))), qaz)
  have hlist : detFromQaz qaz theta = [a, Real.pi - a].map f := by
    unfold detFromQaz
    simp only [rs_sin, rs_cos, rs_asin, rs_two, rs_pi, rs_atan2, rs_zero]
    rw [if_neg (by rw [show Real.sin qaz * Real.sin (2 * theta) = x from rfl, ← ha, hnsa]; simp)]
  -- choose the element with the right sign of cos
  have hchoose : ∃ d ∈ [a, Real.pi - a], Real.sin d = Real.sin delta ∧ Real.cos d = Real.cos delta := by
    by_cases hpos : 0 ≤ Real.cos delta
    · exact ⟨a, by simp, by rw [hsa, hsx], by rw [hca, abs_of_nonneg hpos]⟩
    · have hneg : Real.cos delta < 0 := lt_of_not_ge hpos
      exact ⟨Real.pi - a, by simp, by rw [Real.sin_pi_sub, hsa, hsx], by rw [Real.cos_pi_sub, hca, abs_of_neg hneg]; ring⟩
  obtain ⟨d, hdmem, hds, hdc⟩ := hchoose
  refine ⟨f d, ?_, ⟨hds, hdc⟩, ?_, rfl⟩
  · rw [hlist]; exact List.mem_map.mpr ⟨d, hdmem, rfl⟩
  · -- nu
    have hnsd : Scalar.isSmall (Real.cos d) = false := by rw [hdc]; exact hns
    simp only [f, hdc, hns, Bool.false_eq_true, if_false]
    set c := Real.cos delta with hc
    obtain ⟨hsc, hs2⟩ := C01.sign_facts c hns
    set sg : ℝ := Scalar.sign c
    have hcne := C01.not_small_ne_zero hns
    have habs : 0 < |c| := abs_pos.mpr hcne
    have e1 : sg * Real.sin (2 * theta) * Real.cos qaz = |c| * Real.sin nu := by rw [← hsc]; linear_combination (-sg) * h2
    have e2 : sg * Real.cos (2 * theta) = |c| * Real.cos nu := by rw [← hsc]; linear_combination (-sg) * h3
    have hq : (|c| * Real.cos nu) ^ 2 + (|c| * Real.sin nu) ^ 2 = |c| ^ 2 := by
      have := Real.sin_sq_add_cos_sq nu; nlinarith
    have hsqrt : Real.sqrt ((|c| * Real.cos nu) ^ 2 + (|c| * Real.sin nu) ^ 2) = |c| := by rw [hq]; exact Real.sqrt_sq habs.le
    constructor
    · rw [e1, e2, sin_atan2R, hsqrt]; field_simp
    · rw [e1, e2, cos_atan2R, hsqrt]
      · field_simp
      · by_contra hcon
        push Not at hcon
        have : |c| ^ 2 = 0 := by rw [← hq, hcon.1, hcon.2]; ring
        exact habs.ne' (pow_eq_zero_iff (by norm_num) |>.mp this)

/-! ## an exactly consistent candidate survives filter and guard -/

theorem anglesEquivalent_self (a : ℝ) : anglesEquivalent a a = true := by
  simp only [anglesEquivalent, anglesEquivalentTol, Scalar.isSmallTol, sub_self, Scalar.toRad, zero_mul, zero_div, rs_sin, Real.sin_zero,
    rs_abs, abs_zero, rs_le, Scalar.SMALL, Scalar.ofSci, rs_pi, rs_ofNat, decide_eq_true_eq]
  have := Real.pi_pos
  positivity

theorem hklMatches_exact (hkl : V3 ℝ) : hklMatches hkl hkl = true := by
  simp [hklMatches, Scalar.ofSci]; norm_num

/-- if the pseudo-angles of a position equal the constrained values exactly, the read-back filter keeps it -/
theorem filter_keeps_exact (va : VAngles ℝ) (ref : Option (RefCon ℝ)) (det : Option (DetCon ℝ)) (naz : Option ℝ)
    (href : match ref with
      | none => True
      | some .a_eq_b => va.beta = some va.alpha
      | some .bin_eq_bout => va.betain = va.betaout
      | some (.alpha v) => va.alpha = Scalar.toDeg v
      | some (.beta v) => va.beta = some (Scalar.toDeg v)
      | some (.psi v) => va.psi = some (Scalar.toDeg v)
      | some (.betain v) => va.betain = Scalar.toDeg v
      | some (.betaout v) => va.betaout = Scalar.toDeg v)
    (hdet : match det with | some (.qaz v) => va.qaz = Scalar.toDeg v | _ => True)
    (hnaz : match naz with | some v => va.naz = some (Scalar.toDeg v) | none => True) :
    passesFilter va ref det naz = true := by
  unfold passesFilter
  simp only [Bool.and_eq_true]
  refine ⟨⟨?_, ?_⟩, ?_⟩
  · cases ref with
    | none => rfl
    | some r => cases r <;> simp only [] at href ⊢ <;> simp [href, anglesEquivalent_self]
  · cases det with
    | none => rfl
    | some d => cases d <;> simp only [] at hdet ⊢ <;> simp [hdet, anglesEquivalent_self]
  · cases naz with
    | none => rfl
    | some v => simp only [] at hnaz ⊢; simp [hnaz, anglesEquivalent_self]

/-! ## all or nothing -/

theorem mapM_unit_ok {β : Type} (f : β → Py Unit) : ∀ xs : List β, (∀ x ∈ xs, f x = .ok ()) → ∃ us, xs.mapM f = .ok us
  | [], _ => ⟨[], rfl⟩
  | x :: xs, h => by
    obtain ⟨us, hus⟩ := mapM_unit_ok f xs (fun y hy => h y (by simp [hy]))
    exact ⟨() :: us, by simp [List.mapM_cons, h x (by simp), hus, bind, Except.bind, pure, Except.pure]⟩

/-- **all-or-nothing**: `get_position` returns exactly the filtered list of `__calc_hkl_to_position`, and it does so iff
    EVERY element of that list passes the hkl read-back guard; one failing sibling aborts the whole request -/
theorem allOrNothing (ub : UBIn ℝ) (mode : Mode ℝ) (hkl : V3 ℝ) (wl : ℝ) (l : List (Pos ℝ × VAngles ℝ)) :
    getPosition ub mode hkl wl = .ok l ↔
      (hklToPosition ub mode hkl wl = .ok l ∧ ∀ pv ∈ l, hklMatches (getHkl ub pv.1 wl) hkl = true) := by
  constructor
  · intro h
    have hg := C01.getPosition_guard ub mode hkl wl l h
    unfold getPosition at h
    obtain ⟨pairs, hp, h⟩ := bind_ok_inv h
    obtain ⟨_, _, h⟩ := bind_ok_inv h
    obtain ⟨_, _, h⟩ := bind_ok_inv h
    simp only [pure, Except.pure, Except.ok.injEq] at h
    subst h
    exact ⟨hp, fun pv hpv => (hg pv hpv).1⟩
  · rintro ⟨hp, hall⟩
    unfold getPosition
    rw [hp]
    simp only [bind, Except.bind]
    obtain ⟨us, hus⟩ := mapM_unit_ok (fun (x : Pos ℝ × VAngles ℝ) =>
        match x with | (p, _) => if hklMatches (getHkl ub p wl) hkl = true then (pure () : Py Unit) else .error .dce) l
      (by intro x hx; obtain ⟨p, va⟩ := x; simp only []; rw [if_pos (hall (p, va) hx)]; rfl)
    rw [hus]
    obtain ⟨vas, hv⟩ := C11.mapM_total (f := fun (x : Pos ℝ × VAngles ℝ) => match x with | (p, _) => virtualAngles ub p)
      (by intro x; obtain ⟨p, va⟩ := x; exact C11.virtualAngles_total ub p) l
    simp only [hv]
    rfl
end
end C03
