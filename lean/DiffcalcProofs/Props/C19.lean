import Diffcalc.Gen.FixedQ
import DiffcalcProofs.Lemmas.RealLinalg
/-!
# C19 — the fixed-index / fixed-|Q| solver returns exactly the plane–sphere intersection

Model: `Gen/FixedQ.lean`, GENERATED from `src/diffcalc/util.py` on every run (tie T) — the theorems are re-checked
against what the code says now.  For each of the three solvers and each of the two coefficient branches one polynomial
identity (`*_ident`, checked by `ring`) relates the code's divisor / coefficient / discriminant to the sphere
equation restricted to the plane; soundness (both returned triples lie on plane and sphere, fixed index kept),
completeness (every intersection point is one of the two), tangency (equal iff discriminant = 0) and rejection
(negative discriminant: no real intersection) follow from it.

(This file is produced by `tools/dev/gen_c19_proofs.py` from one proof template; it is ordinary Lean source.)
-/
namespace C19
open Gen
noncomputable section

def OnPlane (a b c d : ℝ) (v : ℝ × ℝ × ℝ) : Prop := a * v.1 + b * v.2.1 + c * v.2.2 = d
def OnSphere (B : M3 ℝ) (q : ℝ) (v : ℝ × ℝ × ℝ) : Prop := V3.normSq (M3.mulVec B ⟨v.1, v.2.1, v.2.2⟩) = q

theorem onSphere_iff (B : M3 ℝ) (q h k l : ℝ) : OnSphere B q (h, k, l) ↔
    (B.a00 * h + B.a01 * k + B.a02 * l) ^ 2 + (B.a10 * h + B.a11 * k + B.a12 * l) ^ 2
      + (B.a20 * h + B.a21 * k + B.a22 * l) ^ 2 = q := by
  simp only [OnSphere, V3.normSq, V3.dot, M3.mulVec, pow_two]


/-! ## `SolveH`, branch `b ≠ 0` (unknown `l` from the quadratic, `k` from the plane) -/

/-- `b²·(|B·(h,k,l)|² − q)` on the plane, as a function of the unknown `l` -/
def hT_quad (h qval : ℝ) (B : M3 ℝ) (a b c d l : ℝ) : ℝ :=
  (B.a00 * (h * b) + B.a01 * (d - a * h - c * l) + B.a02 * (l * b)) ^ 2 + (B.a10 * (h * b) + B.a11 * (d - a * h - c * l) + B.a12 * (l * b)) ^ 2 + (B.a20 * (h * b) + B.a21 * (d - a * h - c * l) + B.a22 * (l * b)) ^ 2 - qval * b ^ 2

/-- the polynomial identity behind this branch, for EVERY value of `l` -/
theorem hT_ident (h qval : ℝ) (B : M3 ℝ) (a b c d l : ℝ) :
    (l * (SolveH.divisor h qval B a b c d) + (SolveH.coefT h qval B a b c d)) ^ 2 - b ^ 2 * (SolveH.discriminant h qval B a b c d) = (SolveH.divisor h qval B a b c d) * hT_quad h qval B a b c d l := by
  simp only [hT_quad, SolveH.divisor, SolveH.coefT, SolveH.discriminant, rs_ofNat]
  push_cast
  ring

theorem hT_onSphere (h qval : ℝ) (B : M3 ℝ) (a b c d k l : ℝ) (ht : b ≠ 0)
    (hp : OnPlane a b c d (h, k, l)) : OnSphere B qval (h, k, l) ↔ hT_quad h qval B a b c d l = 0 := by
  simp only [OnPlane] at hp
  rw [onSphere_iff]
  have ho : k * b = d - a * h - c * l := by linear_combination hp
  simp only [hT_quad]
  rw [← ho]
  constructor
  · intro hq; linear_combination (b ^ 2) * hq
  · intro hF
    have : ((B.a00 * h + B.a01 * k + B.a02 * l) ^ 2 + (B.a10 * h + B.a11 * k + B.a12 * l) ^ 2
      + (B.a20 * h + B.a21 * k + B.a22 * l) ^ 2 - qval) * b ^ 2 = 0 := by linear_combination hF
    rcases mul_eq_zero.mp this with h0 | h0
    · linarith
    · exact absurd (pow_eq_zero_iff (by norm_num) |>.mp h0) ht

theorem hT_sol_eq (h qval : ℝ) (B : M3 ℝ) (a b c d s : ℝ) :
    (SolveH.solTs s h qval B a b c d) = ((h, ((d - a * h - c * (-((SolveH.coefT h qval B a b c d) + s * b) / (SolveH.divisor h qval B a b c d))) / b), (-((SolveH.coefT h qval B a b c d) + s * b) / (SolveH.divisor h qval B a b c d))), (h, ((d - a * h - c * (-((SolveH.coefT h qval B a b c d) - s * b) / (SolveH.divisor h qval B a b c d))) / b), (-((SolveH.coefT h qval B a b c d) - s * b) / (SolveH.divisor h qval B a b c d)))) := by
  simp only [SolveH.solTs]
  try (refine Prod.ext (Prod.ext ?_ (Prod.ext ?_ ?_)) (Prod.ext ?_ (Prod.ext ?_ ?_)) <;> simp only [] <;> ring)

theorem hT_root_sound (h qval : ℝ) (B : M3 ℝ) (a b c d s r : ℝ) (hs : s ^ 2 = (SolveH.discriminant h qval B a b c d)) (hdv : (SolveH.divisor h qval B a b c d) ≠ 0)
    (ht : b ≠ 0) (hr : r * (SolveH.divisor h qval B a b c d) + (SolveH.coefT h qval B a b c d) = s * b ∨ r * (SolveH.divisor h qval B a b c d) + (SolveH.coefT h qval B a b c d) = -(s * b)) :
    OnPlane a b c d (h, ((d - a * h - c * r) / b), r) ∧ OnSphere B qval (h, ((d - a * h - c * r) / b), r) := by
  have hp : OnPlane a b c d (h, ((d - a * h - c * r) / b), r) := by simp only [OnPlane]; field_simp; ring
  refine ⟨hp, ?_⟩
  rw [hT_onSphere h qval B a b c d _ _ ht hp]
  have hid := hT_ident h qval B a b c d r
  have hsq : (r * (SolveH.divisor h qval B a b c d) + (SolveH.coefT h qval B a b c d)) ^ 2 = (s * b) ^ 2 := by rcases hr with h1 | h1 <;> rw [h1] <;> ring
  have : (SolveH.divisor h qval B a b c d) * hT_quad h qval B a b c d r = 0 := by linear_combination hsq - hid + (b ^ 2) * hs
  rcases mul_eq_zero.mp this with h0 | h0
  · exact absurd h0 hdv
  · exact h0

/-- **soundness**: both returned triples keep the fixed index, lie on the plane and on the sphere -/
theorem hT_sound (h qval : ℝ) (B : M3 ℝ) (a b c d s : ℝ) (hs : s ^ 2 = (SolveH.discriminant h qval B a b c d)) (hdv : (SolveH.divisor h qval B a b c d) ≠ 0) (ht : b ≠ 0) :
    ((SolveH.solTs s h qval B a b c d).1.1 = h ∧ OnPlane a b c d (SolveH.solTs s h qval B a b c d).1 ∧ OnSphere B qval (SolveH.solTs s h qval B a b c d).1) ∧
    ((SolveH.solTs s h qval B a b c d).2.1 = h ∧ OnPlane a b c d (SolveH.solTs s h qval B a b c d).2 ∧ OnSphere B qval (SolveH.solTs s h qval B a b c d).2) := by
  rw [hT_sol_eq]
  have h1 := hT_root_sound h qval B a b c d s (-((SolveH.coefT h qval B a b c d) + s * b) / (SolveH.divisor h qval B a b c d)) hs hdv ht (Or.inr (by field_simp; ring))
  have h2 := hT_root_sound h qval B a b c d s (-((SolveH.coefT h qval B a b c d) - s * b) / (SolveH.divisor h qval B a b c d)) hs hdv ht (Or.inl (by field_simp; ring))
  exact ⟨⟨rfl, h1.1, h1.2⟩, ⟨rfl, h2.1, h2.2⟩⟩

/-- **completeness**: every point of the plane–sphere intersection with the fixed index is one of the two returned -/
theorem hT_complete (h qval : ℝ) (B : M3 ℝ) (a b c d s k l : ℝ) (hs : s ^ 2 = (SolveH.discriminant h qval B a b c d)) (hdv : (SolveH.divisor h qval B a b c d) ≠ 0) (ht : b ≠ 0)
    (hp : OnPlane a b c d (h, k, l)) (hq : OnSphere B qval (h, k, l)) :
    (h, k, l) = (SolveH.solTs s h qval B a b c d).1 ∨ (h, k, l) = (SolveH.solTs s h qval B a b c d).2 := by
  rw [hT_sol_eq]
  have hQ := (hT_onSphere h qval B a b c d k l ht hp).mp hq
  have hid := hT_ident h qval B a b c d l
  have key : (l * (SolveH.divisor h qval B a b c d) + (SolveH.coefT h qval B a b c d)) ^ 2 = (s * b) ^ 2 := by
    rw [hQ] at hid; linear_combination hid - (b ^ 2) * hs
  simp only [OnPlane] at hp
  have ho : k * b = d - a * h - c * l := by linear_combination hp
  have hoe : k = (d - a * h - c * l) / b := by field_simp; linear_combination ho
  rcases sq_eq_sq_iff_eq_or_eq_neg.mp key with h1 | h1
  · right
    have hf : l = (-((SolveH.coefT h qval B a b c d) - s * b) / (SolveH.divisor h qval B a b c d)) := by field_simp; linear_combination h1
    simp only [Prod.mk.injEq, true_and, and_true]
    refine ⟨?_, ?_⟩ <;> first | exact hf | exact hoe | (rw [← hf]; exact hoe) | rfl
  · left
    have hf : l = (-((SolveH.coefT h qval B a b c d) + s * b) / (SolveH.divisor h qval B a b c d)) := by field_simp; linear_combination h1
    simp only [Prod.mk.injEq, true_and, and_true]
    refine ⟨?_, ?_⟩ <;> first | exact hf | exact hoe | (rw [← hf]; exact hoe) | rfl

/-- **rejection**: with a negative discriminant the plane misses the sphere -/
theorem hT_no_solution (h qval : ℝ) (B : M3 ℝ) (a b c d k l : ℝ) (hneg : (SolveH.discriminant h qval B a b c d) < 0) (hdv : (SolveH.divisor h qval B a b c d) ≠ 0) (ht : b ≠ 0)
    (hp : OnPlane a b c d (h, k, l)) : ¬ OnSphere B qval (h, k, l) := by
  intro hq
  have hQ := (hT_onSphere h qval B a b c d k l ht hp).mp hq
  have hid := hT_ident h qval B a b c d l
  rw [hQ] at hid
  have h1 : 0 ≤ (l * (SolveH.divisor h qval B a b c d) + (SolveH.coefT h qval B a b c d)) ^ 2 := sq_nonneg _
  have h2 : 0 < b ^ 2 := by positivity
  nlinarith

/-- **tangency**: the two returned triples coincide exactly when the discriminant vanishes -/
theorem hT_tangent (h qval : ℝ) (B : M3 ℝ) (a b c d s : ℝ) (hs : s ^ 2 = (SolveH.discriminant h qval B a b c d)) (hdv : (SolveH.divisor h qval B a b c d) ≠ 0) (ht : b ≠ 0) :
    (SolveH.solTs s h qval B a b c d).1 = (SolveH.solTs s h qval B a b c d).2 ↔ (SolveH.discriminant h qval B a b c d) = 0 := by
  rw [hT_sol_eq]
  constructor
  · intro he
    have hf : (-((SolveH.coefT h qval B a b c d) + s * b) / (SolveH.divisor h qval B a b c d)) = (-((SolveH.coefT h qval B a b c d) - s * b) / (SolveH.divisor h qval B a b c d)) := by
      have := congrArg (fun v : ℝ × ℝ × ℝ => v.2.2) he
      simpa using this
    have : s * b = 0 := by
      field_simp at hf
      linarith
    have hs0 : s = 0 := by rcases mul_eq_zero.mp this with h0 | h0; exact h0; exact absurd h0 ht
    rw [← hs, hs0]; ring
  · intro h0
    have hs0 : s = 0 := by rw [h0] at hs; exact pow_eq_zero_iff (by norm_num) |>.mp hs
    subst hs0
    simp


/-! ## `SolveH`, branch `b = 0` (unknown `k` from the quadratic, `l` from the plane) -/

/-- `c²·(|B·(h,k,l)|² − q)` on the plane, as a function of the unknown `k` -/
def hF_quad (h qval : ℝ) (B : M3 ℝ) (a c d k : ℝ) : ℝ :=
  (B.a00 * (h * c) + B.a01 * (k * c) + B.a02 * (d - a * h)) ^ 2 + (B.a10 * (h * c) + B.a11 * (k * c) + B.a12 * (d - a * h)) ^ 2 + (B.a20 * (h * c) + B.a21 * (k * c) + B.a22 * (d - a * h)) ^ 2 - qval * c ^ 2

/-- the polynomial identity behind this branch, for EVERY value of `k` -/
theorem hF_ident (h qval : ℝ) (B : M3 ℝ) (a c d k : ℝ) :
    (k * (SolveH.divisor h qval B a 0 c d) - (SolveH.coefF h qval B a 0 c d)) ^ 2 - c ^ 2 * (SolveH.discriminant h qval B a 0 c d) = (SolveH.divisor h qval B a 0 c d) * hF_quad h qval B a c d k := by
  simp only [hF_quad, SolveH.divisor, SolveH.coefF, SolveH.discriminant, rs_ofNat]
  push_cast
  ring

theorem hF_onSphere (h qval : ℝ) (B : M3 ℝ) (a c d k l : ℝ) (ht : c ≠ 0)
    (hp : OnPlane a 0 c d (h, k, l)) : OnSphere B qval (h, k, l) ↔ hF_quad h qval B a c d k = 0 := by
  simp only [OnPlane] at hp
  rw [onSphere_iff]
  have ho : l * c = d - a * h := by linear_combination hp
  simp only [hF_quad]
  rw [← ho]
  constructor
  · intro hq; linear_combination (c ^ 2) * hq
  · intro hF
    have : ((B.a00 * h + B.a01 * k + B.a02 * l) ^ 2 + (B.a10 * h + B.a11 * k + B.a12 * l) ^ 2
      + (B.a20 * h + B.a21 * k + B.a22 * l) ^ 2 - qval) * c ^ 2 = 0 := by linear_combination hF
    rcases mul_eq_zero.mp this with h0 | h0
    · linarith
    · exact absurd (pow_eq_zero_iff (by norm_num) |>.mp h0) ht

theorem hF_sol_eq (h qval : ℝ) (B : M3 ℝ) (a c d s : ℝ) :
    (SolveH.solFs s h qval B a 0 c d) = ((h, (((SolveH.coefF h qval B a 0 c d) - s * c) / (SolveH.divisor h qval B a 0 c d)), ((d - a * h) / c)), (h, (((SolveH.coefF h qval B a 0 c d) + s * c) / (SolveH.divisor h qval B a 0 c d)), ((d - a * h) / c))) := by
  simp only [SolveH.solFs]
  try (refine Prod.ext (Prod.ext ?_ (Prod.ext ?_ ?_)) (Prod.ext ?_ (Prod.ext ?_ ?_)) <;> simp only [] <;> ring)

theorem hF_root_sound (h qval : ℝ) (B : M3 ℝ) (a c d s r : ℝ) (hs : s ^ 2 = (SolveH.discriminant h qval B a 0 c d)) (hdv : (SolveH.divisor h qval B a 0 c d) ≠ 0)
    (ht : c ≠ 0) (hr : r * (SolveH.divisor h qval B a 0 c d) - (SolveH.coefF h qval B a 0 c d) = s * c ∨ r * (SolveH.divisor h qval B a 0 c d) - (SolveH.coefF h qval B a 0 c d) = -(s * c)) :
    OnPlane a 0 c d (h, r, ((d - a * h) / c)) ∧ OnSphere B qval (h, r, ((d - a * h) / c)) := by
  have hp : OnPlane a 0 c d (h, r, ((d - a * h) / c)) := by simp only [OnPlane]; field_simp; ring
  refine ⟨hp, ?_⟩
  rw [hF_onSphere h qval B a c d _ _ ht hp]
  have hid := hF_ident h qval B a c d r
  have hsq : (r * (SolveH.divisor h qval B a 0 c d) - (SolveH.coefF h qval B a 0 c d)) ^ 2 = (s * c) ^ 2 := by rcases hr with h1 | h1 <;> rw [h1] <;> ring
  have : (SolveH.divisor h qval B a 0 c d) * hF_quad h qval B a c d r = 0 := by linear_combination hsq - hid + (c ^ 2) * hs
  rcases mul_eq_zero.mp this with h0 | h0
  · exact absurd h0 hdv
  · exact h0

/-- **soundness**: both returned triples keep the fixed index, lie on the plane and on the sphere -/
theorem hF_sound (h qval : ℝ) (B : M3 ℝ) (a c d s : ℝ) (hs : s ^ 2 = (SolveH.discriminant h qval B a 0 c d)) (hdv : (SolveH.divisor h qval B a 0 c d) ≠ 0) (ht : c ≠ 0) :
    ((SolveH.solFs s h qval B a 0 c d).1.1 = h ∧ OnPlane a 0 c d (SolveH.solFs s h qval B a 0 c d).1 ∧ OnSphere B qval (SolveH.solFs s h qval B a 0 c d).1) ∧
    ((SolveH.solFs s h qval B a 0 c d).2.1 = h ∧ OnPlane a 0 c d (SolveH.solFs s h qval B a 0 c d).2 ∧ OnSphere B qval (SolveH.solFs s h qval B a 0 c d).2) := by
  rw [hF_sol_eq]
  have h1 := hF_root_sound h qval B a c d s (((SolveH.coefF h qval B a 0 c d) - s * c) / (SolveH.divisor h qval B a 0 c d)) hs hdv ht (Or.inr (by field_simp; ring))
  have h2 := hF_root_sound h qval B a c d s (((SolveH.coefF h qval B a 0 c d) + s * c) / (SolveH.divisor h qval B a 0 c d)) hs hdv ht (Or.inl (by field_simp; ring))
  exact ⟨⟨rfl, h1.1, h1.2⟩, ⟨rfl, h2.1, h2.2⟩⟩

/-- **completeness**: every point of the plane–sphere intersection with the fixed index is one of the two returned -/
theorem hF_complete (h qval : ℝ) (B : M3 ℝ) (a c d s k l : ℝ) (hs : s ^ 2 = (SolveH.discriminant h qval B a 0 c d)) (hdv : (SolveH.divisor h qval B a 0 c d) ≠ 0) (ht : c ≠ 0)
    (hp : OnPlane a 0 c d (h, k, l)) (hq : OnSphere B qval (h, k, l)) :
    (h, k, l) = (SolveH.solFs s h qval B a 0 c d).1 ∨ (h, k, l) = (SolveH.solFs s h qval B a 0 c d).2 := by
  rw [hF_sol_eq]
  have hQ := (hF_onSphere h qval B a c d k l ht hp).mp hq
  have hid := hF_ident h qval B a c d k
  have key : (k * (SolveH.divisor h qval B a 0 c d) - (SolveH.coefF h qval B a 0 c d)) ^ 2 = (s * c) ^ 2 := by
    rw [hQ] at hid; linear_combination hid - (c ^ 2) * hs
  simp only [OnPlane] at hp
  have ho : l * c = d - a * h := by linear_combination hp
  have hoe : l = (d - a * h) / c := by field_simp; linear_combination ho
  rcases sq_eq_sq_iff_eq_or_eq_neg.mp key with h1 | h1
  · right
    have hf : k = (((SolveH.coefF h qval B a 0 c d) + s * c) / (SolveH.divisor h qval B a 0 c d)) := by field_simp; linear_combination h1
    simp only [Prod.mk.injEq, true_and, and_true]
    refine ⟨?_, ?_⟩ <;> first | exact hf | exact hoe | (rw [← hf]; exact hoe) | rfl
  · left
    have hf : k = (((SolveH.coefF h qval B a 0 c d) - s * c) / (SolveH.divisor h qval B a 0 c d)) := by field_simp; linear_combination h1
    simp only [Prod.mk.injEq, true_and, and_true]
    refine ⟨?_, ?_⟩ <;> first | exact hf | exact hoe | (rw [← hf]; exact hoe) | rfl

/-- **rejection**: with a negative discriminant the plane misses the sphere -/
theorem hF_no_solution (h qval : ℝ) (B : M3 ℝ) (a c d k l : ℝ) (hneg : (SolveH.discriminant h qval B a 0 c d) < 0) (hdv : (SolveH.divisor h qval B a 0 c d) ≠ 0) (ht : c ≠ 0)
    (hp : OnPlane a 0 c d (h, k, l)) : ¬ OnSphere B qval (h, k, l) := by
  intro hq
  have hQ := (hF_onSphere h qval B a c d k l ht hp).mp hq
  have hid := hF_ident h qval B a c d k
  rw [hQ] at hid
  have h1 : 0 ≤ (k * (SolveH.divisor h qval B a 0 c d) - (SolveH.coefF h qval B a 0 c d)) ^ 2 := sq_nonneg _
  have h2 : 0 < c ^ 2 := by positivity
  nlinarith

/-- **tangency**: the two returned triples coincide exactly when the discriminant vanishes -/
theorem hF_tangent (h qval : ℝ) (B : M3 ℝ) (a c d s : ℝ) (hs : s ^ 2 = (SolveH.discriminant h qval B a 0 c d)) (hdv : (SolveH.divisor h qval B a 0 c d) ≠ 0) (ht : c ≠ 0) :
    (SolveH.solFs s h qval B a 0 c d).1 = (SolveH.solFs s h qval B a 0 c d).2 ↔ (SolveH.discriminant h qval B a 0 c d) = 0 := by
  rw [hF_sol_eq]
  constructor
  · intro he
    have hf : (((SolveH.coefF h qval B a 0 c d) - s * c) / (SolveH.divisor h qval B a 0 c d)) = (((SolveH.coefF h qval B a 0 c d) + s * c) / (SolveH.divisor h qval B a 0 c d)) := by
      have := congrArg (fun v : ℝ × ℝ × ℝ => v.2.1) he
      simpa using this
    have : s * c = 0 := by
      field_simp at hf
      linarith
    have hs0 : s = 0 := by rcases mul_eq_zero.mp this with h0 | h0; exact h0; exact absurd h0 ht
    rw [← hs, hs0]; ring
  · intro h0
    have hs0 : s = 0 := by rw [h0] at hs; exact pow_eq_zero_iff (by norm_num) |>.mp hs
    subst hs0
    simp


/-! ## `SolveK`, branch `a ≠ 0` (unknown `l` from the quadratic, `h` from the plane) -/

/-- `a²·(|B·(h,k,l)|² − q)` on the plane, as a function of the unknown `l` -/
def kT_quad (k qval : ℝ) (B : M3 ℝ) (a b c d l : ℝ) : ℝ :=
  (B.a00 * (d - b * k - c * l) + B.a01 * (k * a) + B.a02 * (l * a)) ^ 2 + (B.a10 * (d - b * k - c * l) + B.a11 * (k * a) + B.a12 * (l * a)) ^ 2 + (B.a20 * (d - b * k - c * l) + B.a21 * (k * a) + B.a22 * (l * a)) ^ 2 - qval * a ^ 2

/-- the polynomial identity behind this branch, for EVERY value of `l` -/
theorem kT_ident (k qval : ℝ) (B : M3 ℝ) (a b c d l : ℝ) :
    (l * (SolveK.divisor k qval B a b c d) + (SolveK.coefT k qval B a b c d)) ^ 2 - a ^ 2 * (SolveK.discriminant k qval B a b c d) = (SolveK.divisor k qval B a b c d) * kT_quad k qval B a b c d l := by
  simp only [kT_quad, SolveK.divisor, SolveK.coefT, SolveK.discriminant, rs_ofNat]
  push_cast
  ring

theorem kT_onSphere (k qval : ℝ) (B : M3 ℝ) (a b c d h l : ℝ) (ht : a ≠ 0)
    (hp : OnPlane a b c d (h, k, l)) : OnSphere B qval (h, k, l) ↔ kT_quad k qval B a b c d l = 0 := by
  simp only [OnPlane] at hp
  rw [onSphere_iff]
  have ho : h * a = d - b * k - c * l := by linear_combination hp
  simp only [kT_quad]
  rw [← ho]
  constructor
  · intro hq; linear_combination (a ^ 2) * hq
  · intro hF
    have : ((B.a00 * h + B.a01 * k + B.a02 * l) ^ 2 + (B.a10 * h + B.a11 * k + B.a12 * l) ^ 2
      + (B.a20 * h + B.a21 * k + B.a22 * l) ^ 2 - qval) * a ^ 2 = 0 := by linear_combination hF
    rcases mul_eq_zero.mp this with h0 | h0
    · linarith
    · exact absurd (pow_eq_zero_iff (by norm_num) |>.mp h0) ht

theorem kT_sol_eq (k qval : ℝ) (B : M3 ℝ) (a b c d s : ℝ) :
    (SolveK.solTs s k qval B a b c d) = ((((d - b * k - c * (-((SolveK.coefT k qval B a b c d) + s * a) / (SolveK.divisor k qval B a b c d))) / a), k, (-((SolveK.coefT k qval B a b c d) + s * a) / (SolveK.divisor k qval B a b c d))), (((d - b * k - c * (-((SolveK.coefT k qval B a b c d) - s * a) / (SolveK.divisor k qval B a b c d))) / a), k, (-((SolveK.coefT k qval B a b c d) - s * a) / (SolveK.divisor k qval B a b c d)))) := by
  simp only [SolveK.solTs]
  try (refine Prod.ext (Prod.ext ?_ (Prod.ext ?_ ?_)) (Prod.ext ?_ (Prod.ext ?_ ?_)) <;> simp only [] <;> ring)

theorem kT_root_sound (k qval : ℝ) (B : M3 ℝ) (a b c d s r : ℝ) (hs : s ^ 2 = (SolveK.discriminant k qval B a b c d)) (hdv : (SolveK.divisor k qval B a b c d) ≠ 0)
    (ht : a ≠ 0) (hr : r * (SolveK.divisor k qval B a b c d) + (SolveK.coefT k qval B a b c d) = s * a ∨ r * (SolveK.divisor k qval B a b c d) + (SolveK.coefT k qval B a b c d) = -(s * a)) :
    OnPlane a b c d (((d - b * k - c * r) / a), k, r) ∧ OnSphere B qval (((d - b * k - c * r) / a), k, r) := by
  have hp : OnPlane a b c d (((d - b * k - c * r) / a), k, r) := by simp only [OnPlane]; field_simp; ring
  refine ⟨hp, ?_⟩
  rw [kT_onSphere k qval B a b c d _ _ ht hp]
  have hid := kT_ident k qval B a b c d r
  have hsq : (r * (SolveK.divisor k qval B a b c d) + (SolveK.coefT k qval B a b c d)) ^ 2 = (s * a) ^ 2 := by rcases hr with h1 | h1 <;> rw [h1] <;> ring
  have : (SolveK.divisor k qval B a b c d) * kT_quad k qval B a b c d r = 0 := by linear_combination hsq - hid + (a ^ 2) * hs
  rcases mul_eq_zero.mp this with h0 | h0
  · exact absurd h0 hdv
  · exact h0

/-- **soundness**: both returned triples keep the fixed index, lie on the plane and on the sphere -/
theorem kT_sound (k qval : ℝ) (B : M3 ℝ) (a b c d s : ℝ) (hs : s ^ 2 = (SolveK.discriminant k qval B a b c d)) (hdv : (SolveK.divisor k qval B a b c d) ≠ 0) (ht : a ≠ 0) :
    ((SolveK.solTs s k qval B a b c d).1.2.1 = k ∧ OnPlane a b c d (SolveK.solTs s k qval B a b c d).1 ∧ OnSphere B qval (SolveK.solTs s k qval B a b c d).1) ∧
    ((SolveK.solTs s k qval B a b c d).2.2.1 = k ∧ OnPlane a b c d (SolveK.solTs s k qval B a b c d).2 ∧ OnSphere B qval (SolveK.solTs s k qval B a b c d).2) := by
  rw [kT_sol_eq]
  have h1 := kT_root_sound k qval B a b c d s (-((SolveK.coefT k qval B a b c d) + s * a) / (SolveK.divisor k qval B a b c d)) hs hdv ht (Or.inr (by field_simp; ring))
  have h2 := kT_root_sound k qval B a b c d s (-((SolveK.coefT k qval B a b c d) - s * a) / (SolveK.divisor k qval B a b c d)) hs hdv ht (Or.inl (by field_simp; ring))
  exact ⟨⟨rfl, h1.1, h1.2⟩, ⟨rfl, h2.1, h2.2⟩⟩

/-- **completeness**: every point of the plane–sphere intersection with the fixed index is one of the two returned -/
theorem kT_complete (k qval : ℝ) (B : M3 ℝ) (a b c d s h l : ℝ) (hs : s ^ 2 = (SolveK.discriminant k qval B a b c d)) (hdv : (SolveK.divisor k qval B a b c d) ≠ 0) (ht : a ≠ 0)
    (hp : OnPlane a b c d (h, k, l)) (hq : OnSphere B qval (h, k, l)) :
    (h, k, l) = (SolveK.solTs s k qval B a b c d).1 ∨ (h, k, l) = (SolveK.solTs s k qval B a b c d).2 := by
  rw [kT_sol_eq]
  have hQ := (kT_onSphere k qval B a b c d h l ht hp).mp hq
  have hid := kT_ident k qval B a b c d l
  have key : (l * (SolveK.divisor k qval B a b c d) + (SolveK.coefT k qval B a b c d)) ^ 2 = (s * a) ^ 2 := by
    rw [hQ] at hid; linear_combination hid - (a ^ 2) * hs
  simp only [OnPlane] at hp
  have ho : h * a = d - b * k - c * l := by linear_combination hp
  have hoe : h = (d - b * k - c * l) / a := by field_simp; linear_combination ho
  rcases sq_eq_sq_iff_eq_or_eq_neg.mp key with h1 | h1
  · right
    have hf : l = (-((SolveK.coefT k qval B a b c d) - s * a) / (SolveK.divisor k qval B a b c d)) := by field_simp; linear_combination h1
    simp only [Prod.mk.injEq, true_and, and_true]
    refine ⟨?_, ?_⟩ <;> first | exact hf | exact hoe | (rw [← hf]; exact hoe) | rfl
  · left
    have hf : l = (-((SolveK.coefT k qval B a b c d) + s * a) / (SolveK.divisor k qval B a b c d)) := by field_simp; linear_combination h1
    simp only [Prod.mk.injEq, true_and, and_true]
    refine ⟨?_, ?_⟩ <;> first | exact hf | exact hoe | (rw [← hf]; exact hoe) | rfl

/-- **rejection**: with a negative discriminant the plane misses the sphere -/
theorem kT_no_solution (k qval : ℝ) (B : M3 ℝ) (a b c d h l : ℝ) (hneg : (SolveK.discriminant k qval B a b c d) < 0) (hdv : (SolveK.divisor k qval B a b c d) ≠ 0) (ht : a ≠ 0)
    (hp : OnPlane a b c d (h, k, l)) : ¬ OnSphere B qval (h, k, l) := by
  intro hq
  have hQ := (kT_onSphere k qval B a b c d h l ht hp).mp hq
  have hid := kT_ident k qval B a b c d l
  rw [hQ] at hid
  have h1 : 0 ≤ (l * (SolveK.divisor k qval B a b c d) + (SolveK.coefT k qval B a b c d)) ^ 2 := sq_nonneg _
  have h2 : 0 < a ^ 2 := by positivity
  nlinarith

/-- **tangency**: the two returned triples coincide exactly when the discriminant vanishes -/
theorem kT_tangent (k qval : ℝ) (B : M3 ℝ) (a b c d s : ℝ) (hs : s ^ 2 = (SolveK.discriminant k qval B a b c d)) (hdv : (SolveK.divisor k qval B a b c d) ≠ 0) (ht : a ≠ 0) :
    (SolveK.solTs s k qval B a b c d).1 = (SolveK.solTs s k qval B a b c d).2 ↔ (SolveK.discriminant k qval B a b c d) = 0 := by
  rw [kT_sol_eq]
  constructor
  · intro he
    have hf : (-((SolveK.coefT k qval B a b c d) + s * a) / (SolveK.divisor k qval B a b c d)) = (-((SolveK.coefT k qval B a b c d) - s * a) / (SolveK.divisor k qval B a b c d)) := by
      have := congrArg (fun v : ℝ × ℝ × ℝ => v.2.2) he
      simpa using this
    have : s * a = 0 := by
      field_simp at hf
      linarith
    have hs0 : s = 0 := by rcases mul_eq_zero.mp this with h0 | h0; exact h0; exact absurd h0 ht
    rw [← hs, hs0]; ring
  · intro h0
    have hs0 : s = 0 := by rw [h0] at hs; exact pow_eq_zero_iff (by norm_num) |>.mp hs
    subst hs0
    simp


/-! ## `SolveK`, branch `a = 0` (unknown `h` from the quadratic, `l` from the plane) -/

/-- `c²·(|B·(h,k,l)|² − q)` on the plane, as a function of the unknown `h` -/
def kF_quad (k qval : ℝ) (B : M3 ℝ) (b c d h : ℝ) : ℝ :=
  (B.a00 * (h * c) + B.a01 * (k * c) + B.a02 * (d - b * k)) ^ 2 + (B.a10 * (h * c) + B.a11 * (k * c) + B.a12 * (d - b * k)) ^ 2 + (B.a20 * (h * c) + B.a21 * (k * c) + B.a22 * (d - b * k)) ^ 2 - qval * c ^ 2

/-- the polynomial identity behind this branch, for EVERY value of `h` -/
theorem kF_ident (k qval : ℝ) (B : M3 ℝ) (b c d h : ℝ) :
    (h * (SolveK.divisor k qval B 0 b c d) - (SolveK.coefF k qval B 0 b c d)) ^ 2 - c ^ 2 * (SolveK.discriminant k qval B 0 b c d) = (SolveK.divisor k qval B 0 b c d) * kF_quad k qval B b c d h := by
  simp only [kF_quad, SolveK.divisor, SolveK.coefF, SolveK.discriminant, rs_ofNat]
  push_cast
  ring

theorem kF_onSphere (k qval : ℝ) (B : M3 ℝ) (b c d h l : ℝ) (ht : c ≠ 0)
    (hp : OnPlane 0 b c d (h, k, l)) : OnSphere B qval (h, k, l) ↔ kF_quad k qval B b c d h = 0 := by
  simp only [OnPlane] at hp
  rw [onSphere_iff]
  have ho : l * c = d - b * k := by linear_combination hp
  simp only [kF_quad]
  rw [← ho]
  constructor
  · intro hq; linear_combination (c ^ 2) * hq
  · intro hF
    have : ((B.a00 * h + B.a01 * k + B.a02 * l) ^ 2 + (B.a10 * h + B.a11 * k + B.a12 * l) ^ 2
      + (B.a20 * h + B.a21 * k + B.a22 * l) ^ 2 - qval) * c ^ 2 = 0 := by linear_combination hF
    rcases mul_eq_zero.mp this with h0 | h0
    · linarith
    · exact absurd (pow_eq_zero_iff (by norm_num) |>.mp h0) ht

theorem kF_sol_eq (k qval : ℝ) (B : M3 ℝ) (b c d s : ℝ) :
    (SolveK.solFs s k qval B 0 b c d) = (((((SolveK.coefF k qval B 0 b c d) - s * c) / (SolveK.divisor k qval B 0 b c d)), k, ((d - b * k) / c)), ((((SolveK.coefF k qval B 0 b c d) + s * c) / (SolveK.divisor k qval B 0 b c d)), k, ((d - b * k) / c))) := by
  simp only [SolveK.solFs]
  try (refine Prod.ext (Prod.ext ?_ (Prod.ext ?_ ?_)) (Prod.ext ?_ (Prod.ext ?_ ?_)) <;> simp only [] <;> ring)

theorem kF_root_sound (k qval : ℝ) (B : M3 ℝ) (b c d s r : ℝ) (hs : s ^ 2 = (SolveK.discriminant k qval B 0 b c d)) (hdv : (SolveK.divisor k qval B 0 b c d) ≠ 0)
    (ht : c ≠ 0) (hr : r * (SolveK.divisor k qval B 0 b c d) - (SolveK.coefF k qval B 0 b c d) = s * c ∨ r * (SolveK.divisor k qval B 0 b c d) - (SolveK.coefF k qval B 0 b c d) = -(s * c)) :
    OnPlane 0 b c d (r, k, ((d - b * k) / c)) ∧ OnSphere B qval (r, k, ((d - b * k) / c)) := by
  have hp : OnPlane 0 b c d (r, k, ((d - b * k) / c)) := by simp only [OnPlane]; field_simp; ring
  refine ⟨hp, ?_⟩
  rw [kF_onSphere k qval B b c d _ _ ht hp]
  have hid := kF_ident k qval B b c d r
  have hsq : (r * (SolveK.divisor k qval B 0 b c d) - (SolveK.coefF k qval B 0 b c d)) ^ 2 = (s * c) ^ 2 := by rcases hr with h1 | h1 <;> rw [h1] <;> ring
  have : (SolveK.divisor k qval B 0 b c d) * kF_quad k qval B b c d r = 0 := by linear_combination hsq - hid + (c ^ 2) * hs
  rcases mul_eq_zero.mp this with h0 | h0
  · exact absurd h0 hdv
  · exact h0

/-- **soundness**: both returned triples keep the fixed index, lie on the plane and on the sphere -/
theorem kF_sound (k qval : ℝ) (B : M3 ℝ) (b c d s : ℝ) (hs : s ^ 2 = (SolveK.discriminant k qval B 0 b c d)) (hdv : (SolveK.divisor k qval B 0 b c d) ≠ 0) (ht : c ≠ 0) :
    ((SolveK.solFs s k qval B 0 b c d).1.2.1 = k ∧ OnPlane 0 b c d (SolveK.solFs s k qval B 0 b c d).1 ∧ OnSphere B qval (SolveK.solFs s k qval B 0 b c d).1) ∧
    ((SolveK.solFs s k qval B 0 b c d).2.2.1 = k ∧ OnPlane 0 b c d (SolveK.solFs s k qval B 0 b c d).2 ∧ OnSphere B qval (SolveK.solFs s k qval B 0 b c d).2) := by
  rw [kF_sol_eq]
  have h1 := kF_root_sound k qval B b c d s (((SolveK.coefF k qval B 0 b c d) - s * c) / (SolveK.divisor k qval B 0 b c d)) hs hdv ht (Or.inr (by field_simp; ring))
  have h2 := kF_root_sound k qval B b c d s (((SolveK.coefF k qval B 0 b c d) + s * c) / (SolveK.divisor k qval B 0 b c d)) hs hdv ht (Or.inl (by field_simp; ring))
  exact ⟨⟨rfl, h1.1, h1.2⟩, ⟨rfl, h2.1, h2.2⟩⟩

/-- **completeness**: every point of the plane–sphere intersection with the fixed index is one of the two returned -/
theorem kF_complete (k qval : ℝ) (B : M3 ℝ) (b c d s h l : ℝ) (hs : s ^ 2 = (SolveK.discriminant k qval B 0 b c d)) (hdv : (SolveK.divisor k qval B 0 b c d) ≠ 0) (ht : c ≠ 0)
    (hp : OnPlane 0 b c d (h, k, l)) (hq : OnSphere B qval (h, k, l)) :
    (h, k, l) = (SolveK.solFs s k qval B 0 b c d).1 ∨ (h, k, l) = (SolveK.solFs s k qval B 0 b c d).2 := by
  rw [kF_sol_eq]
  have hQ := (kF_onSphere k qval B b c d h l ht hp).mp hq
  have hid := kF_ident k qval B b c d h
  have key : (h * (SolveK.divisor k qval B 0 b c d) - (SolveK.coefF k qval B 0 b c d)) ^ 2 = (s * c) ^ 2 := by
    rw [hQ] at hid; linear_combination hid - (c ^ 2) * hs
  simp only [OnPlane] at hp
  have ho : l * c = d - b * k := by linear_combination hp
  have hoe : l = (d - b * k) / c := by field_simp; linear_combination ho
  rcases sq_eq_sq_iff_eq_or_eq_neg.mp key with h1 | h1
  · right
    have hf : h = (((SolveK.coefF k qval B 0 b c d) + s * c) / (SolveK.divisor k qval B 0 b c d)) := by field_simp; linear_combination h1
    simp only [Prod.mk.injEq, true_and, and_true]
    refine ⟨?_, ?_⟩ <;> first | exact hf | exact hoe | (rw [← hf]; exact hoe) | rfl
  · left
    have hf : h = (((SolveK.coefF k qval B 0 b c d) - s * c) / (SolveK.divisor k qval B 0 b c d)) := by field_simp; linear_combination h1
    simp only [Prod.mk.injEq, true_and, and_true]
    refine ⟨?_, ?_⟩ <;> first | exact hf | exact hoe | (rw [← hf]; exact hoe) | rfl

/-- **rejection**: with a negative discriminant the plane misses the sphere -/
theorem kF_no_solution (k qval : ℝ) (B : M3 ℝ) (b c d h l : ℝ) (hneg : (SolveK.discriminant k qval B 0 b c d) < 0) (hdv : (SolveK.divisor k qval B 0 b c d) ≠ 0) (ht : c ≠ 0)
    (hp : OnPlane 0 b c d (h, k, l)) : ¬ OnSphere B qval (h, k, l) := by
  intro hq
  have hQ := (kF_onSphere k qval B b c d h l ht hp).mp hq
  have hid := kF_ident k qval B b c d h
  rw [hQ] at hid
  have h1 : 0 ≤ (h * (SolveK.divisor k qval B 0 b c d) - (SolveK.coefF k qval B 0 b c d)) ^ 2 := sq_nonneg _
  have h2 : 0 < c ^ 2 := by positivity
  nlinarith

/-- **tangency**: the two returned triples coincide exactly when the discriminant vanishes -/
theorem kF_tangent (k qval : ℝ) (B : M3 ℝ) (b c d s : ℝ) (hs : s ^ 2 = (SolveK.discriminant k qval B 0 b c d)) (hdv : (SolveK.divisor k qval B 0 b c d) ≠ 0) (ht : c ≠ 0) :
    (SolveK.solFs s k qval B 0 b c d).1 = (SolveK.solFs s k qval B 0 b c d).2 ↔ (SolveK.discriminant k qval B 0 b c d) = 0 := by
  rw [kF_sol_eq]
  constructor
  · intro he
    have hf : (((SolveK.coefF k qval B 0 b c d) - s * c) / (SolveK.divisor k qval B 0 b c d)) = (((SolveK.coefF k qval B 0 b c d) + s * c) / (SolveK.divisor k qval B 0 b c d)) := by
      have := congrArg (fun v : ℝ × ℝ × ℝ => v.1) he
      simpa using this
    have : s * c = 0 := by
      field_simp at hf
      linarith
    have hs0 : s = 0 := by rcases mul_eq_zero.mp this with h0 | h0; exact h0; exact absurd h0 ht
    rw [← hs, hs0]; ring
  · intro h0
    have hs0 : s = 0 := by rw [h0] at hs; exact pow_eq_zero_iff (by norm_num) |>.mp hs
    subst hs0
    simp


/-! ## `SolveL`, branch `a ≠ 0` (unknown `k` from the quadratic, `h` from the plane) -/

/-- `a²·(|B·(h,k,l)|² − q)` on the plane, as a function of the unknown `k` -/
def lT_quad (l qval : ℝ) (B : M3 ℝ) (a b c d k : ℝ) : ℝ :=
  (B.a00 * (d - b * k - c * l) + B.a01 * (k * a) + B.a02 * (l * a)) ^ 2 + (B.a10 * (d - b * k - c * l) + B.a11 * (k * a) + B.a12 * (l * a)) ^ 2 + (B.a20 * (d - b * k - c * l) + B.a21 * (k * a) + B.a22 * (l * a)) ^ 2 - qval * a ^ 2

/-- the polynomial identity behind this branch, for EVERY value of `k` -/
theorem lT_ident (l qval : ℝ) (B : M3 ℝ) (a b c d k : ℝ) :
    (k * (SolveL.divisor l qval B a b c d) + (SolveL.coefT l qval B a b c d)) ^ 2 - a ^ 2 * (SolveL.discriminant l qval B a b c d) = (SolveL.divisor l qval B a b c d) * lT_quad l qval B a b c d k := by
  simp only [lT_quad, SolveL.divisor, SolveL.coefT, SolveL.discriminant, rs_ofNat]
  push_cast
  ring

theorem lT_onSphere (l qval : ℝ) (B : M3 ℝ) (a b c d h k : ℝ) (ht : a ≠ 0)
    (hp : OnPlane a b c d (h, k, l)) : OnSphere B qval (h, k, l) ↔ lT_quad l qval B a b c d k = 0 := by
  simp only [OnPlane] at hp
  rw [onSphere_iff]
  have ho : h * a = d - b * k - c * l := by linear_combination hp
  simp only [lT_quad]
  rw [← ho]
  constructor
  · intro hq; linear_combination (a ^ 2) * hq
  · intro hF
    have : ((B.a00 * h + B.a01 * k + B.a02 * l) ^ 2 + (B.a10 * h + B.a11 * k + B.a12 * l) ^ 2
      + (B.a20 * h + B.a21 * k + B.a22 * l) ^ 2 - qval) * a ^ 2 = 0 := by linear_combination hF
    rcases mul_eq_zero.mp this with h0 | h0
    · linarith
    · exact absurd (pow_eq_zero_iff (by norm_num) |>.mp h0) ht

theorem lT_sol_eq (l qval : ℝ) (B : M3 ℝ) (a b c d s : ℝ) :
    (SolveL.solTs s l qval B a b c d) = ((((d - b * (-((SolveL.coefT l qval B a b c d) + s * a) / (SolveL.divisor l qval B a b c d)) - c * l) / a), (-((SolveL.coefT l qval B a b c d) + s * a) / (SolveL.divisor l qval B a b c d)), l), (((d - b * (-((SolveL.coefT l qval B a b c d) - s * a) / (SolveL.divisor l qval B a b c d)) - c * l) / a), (-((SolveL.coefT l qval B a b c d) - s * a) / (SolveL.divisor l qval B a b c d)), l)) := by
  simp only [SolveL.solTs]
  try (refine Prod.ext (Prod.ext ?_ (Prod.ext ?_ ?_)) (Prod.ext ?_ (Prod.ext ?_ ?_)) <;> simp only [] <;> ring)

theorem lT_root_sound (l qval : ℝ) (B : M3 ℝ) (a b c d s r : ℝ) (hs : s ^ 2 = (SolveL.discriminant l qval B a b c d)) (hdv : (SolveL.divisor l qval B a b c d) ≠ 0)
    (ht : a ≠ 0) (hr : r * (SolveL.divisor l qval B a b c d) + (SolveL.coefT l qval B a b c d) = s * a ∨ r * (SolveL.divisor l qval B a b c d) + (SolveL.coefT l qval B a b c d) = -(s * a)) :
    OnPlane a b c d (((d - b * r - c * l) / a), r, l) ∧ OnSphere B qval (((d - b * r - c * l) / a), r, l) := by
  have hp : OnPlane a b c d (((d - b * r - c * l) / a), r, l) := by simp only [OnPlane]; field_simp; ring
  refine ⟨hp, ?_⟩
  rw [lT_onSphere l qval B a b c d _ _ ht hp]
  have hid := lT_ident l qval B a b c d r
  have hsq : (r * (SolveL.divisor l qval B a b c d) + (SolveL.coefT l qval B a b c d)) ^ 2 = (s * a) ^ 2 := by rcases hr with h1 | h1 <;> rw [h1] <;> ring
  have : (SolveL.divisor l qval B a b c d) * lT_quad l qval B a b c d r = 0 := by linear_combination hsq - hid + (a ^ 2) * hs
  rcases mul_eq_zero.mp this with h0 | h0
  · exact absurd h0 hdv
  · exact h0

/-- **soundness**: both returned triples keep the fixed index, lie on the plane and on the sphere -/
theorem lT_sound (l qval : ℝ) (B : M3 ℝ) (a b c d s : ℝ) (hs : s ^ 2 = (SolveL.discriminant l qval B a b c d)) (hdv : (SolveL.divisor l qval B a b c d) ≠ 0) (ht : a ≠ 0) :
    ((SolveL.solTs s l qval B a b c d).1.2.2 = l ∧ OnPlane a b c d (SolveL.solTs s l qval B a b c d).1 ∧ OnSphere B qval (SolveL.solTs s l qval B a b c d).1) ∧
    ((SolveL.solTs s l qval B a b c d).2.2.2 = l ∧ OnPlane a b c d (SolveL.solTs s l qval B a b c d).2 ∧ OnSphere B qval (SolveL.solTs s l qval B a b c d).2) := by
  rw [lT_sol_eq]
  have h1 := lT_root_sound l qval B a b c d s (-((SolveL.coefT l qval B a b c d) + s * a) / (SolveL.divisor l qval B a b c d)) hs hdv ht (Or.inr (by field_simp; ring))
  have h2 := lT_root_sound l qval B a b c d s (-((SolveL.coefT l qval B a b c d) - s * a) / (SolveL.divisor l qval B a b c d)) hs hdv ht (Or.inl (by field_simp; ring))
  exact ⟨⟨rfl, h1.1, h1.2⟩, ⟨rfl, h2.1, h2.2⟩⟩

/-- **completeness**: every point of the plane–sphere intersection with the fixed index is one of the two returned -/
theorem lT_complete (l qval : ℝ) (B : M3 ℝ) (a b c d s h k : ℝ) (hs : s ^ 2 = (SolveL.discriminant l qval B a b c d)) (hdv : (SolveL.divisor l qval B a b c d) ≠ 0) (ht : a ≠ 0)
    (hp : OnPlane a b c d (h, k, l)) (hq : OnSphere B qval (h, k, l)) :
    (h, k, l) = (SolveL.solTs s l qval B a b c d).1 ∨ (h, k, l) = (SolveL.solTs s l qval B a b c d).2 := by
  rw [lT_sol_eq]
  have hQ := (lT_onSphere l qval B a b c d h k ht hp).mp hq
  have hid := lT_ident l qval B a b c d k
  have key : (k * (SolveL.divisor l qval B a b c d) + (SolveL.coefT l qval B a b c d)) ^ 2 = (s * a) ^ 2 := by
    rw [hQ] at hid; linear_combination hid - (a ^ 2) * hs
  simp only [OnPlane] at hp
  have ho : h * a = d - b * k - c * l := by linear_combination hp
  have hoe : h = (d - b * k - c * l) / a := by field_simp; linear_combination ho
  rcases sq_eq_sq_iff_eq_or_eq_neg.mp key with h1 | h1
  · right
    have hf : k = (-((SolveL.coefT l qval B a b c d) - s * a) / (SolveL.divisor l qval B a b c d)) := by field_simp; linear_combination h1
    simp only [Prod.mk.injEq, true_and, and_true]
    refine ⟨?_, ?_⟩ <;> first | exact hf | exact hoe | (rw [← hf]; exact hoe) | rfl
  · left
    have hf : k = (-((SolveL.coefT l qval B a b c d) + s * a) / (SolveL.divisor l qval B a b c d)) := by field_simp; linear_combination h1
    simp only [Prod.mk.injEq, true_and, and_true]
    refine ⟨?_, ?_⟩ <;> first | exact hf | exact hoe | (rw [← hf]; exact hoe) | rfl

/-- **rejection**: with a negative discriminant the plane misses the sphere -/
theorem lT_no_solution (l qval : ℝ) (B : M3 ℝ) (a b c d h k : ℝ) (hneg : (SolveL.discriminant l qval B a b c d) < 0) (hdv : (SolveL.divisor l qval B a b c d) ≠ 0) (ht : a ≠ 0)
    (hp : OnPlane a b c d (h, k, l)) : ¬ OnSphere B qval (h, k, l) := by
  intro hq
  have hQ := (lT_onSphere l qval B a b c d h k ht hp).mp hq
  have hid := lT_ident l qval B a b c d k
  rw [hQ] at hid
  have h1 : 0 ≤ (k * (SolveL.divisor l qval B a b c d) + (SolveL.coefT l qval B a b c d)) ^ 2 := sq_nonneg _
  have h2 : 0 < a ^ 2 := by positivity
  nlinarith

/-- **tangency**: the two returned triples coincide exactly when the discriminant vanishes -/
theorem lT_tangent (l qval : ℝ) (B : M3 ℝ) (a b c d s : ℝ) (hs : s ^ 2 = (SolveL.discriminant l qval B a b c d)) (hdv : (SolveL.divisor l qval B a b c d) ≠ 0) (ht : a ≠ 0) :
    (SolveL.solTs s l qval B a b c d).1 = (SolveL.solTs s l qval B a b c d).2 ↔ (SolveL.discriminant l qval B a b c d) = 0 := by
  rw [lT_sol_eq]
  constructor
  · intro he
    have hf : (-((SolveL.coefT l qval B a b c d) + s * a) / (SolveL.divisor l qval B a b c d)) = (-((SolveL.coefT l qval B a b c d) - s * a) / (SolveL.divisor l qval B a b c d)) := by
      have := congrArg (fun v : ℝ × ℝ × ℝ => v.2.1) he
      simpa using this
    have : s * a = 0 := by
      field_simp at hf
      linarith
    have hs0 : s = 0 := by rcases mul_eq_zero.mp this with h0 | h0; exact h0; exact absurd h0 ht
    rw [← hs, hs0]; ring
  · intro h0
    have hs0 : s = 0 := by rw [h0] at hs; exact pow_eq_zero_iff (by norm_num) |>.mp hs
    subst hs0
    simp


/-! ## `SolveL`, branch `a = 0` (unknown `h` from the quadratic, `k` from the plane) -/

/-- `b²·(|B·(h,k,l)|² − q)` on the plane, as a function of the unknown `h` -/
def lF_quad (l qval : ℝ) (B : M3 ℝ) (b c d h : ℝ) : ℝ :=
  (B.a00 * (h * b) + B.a01 * (d - c * l) + B.a02 * (l * b)) ^ 2 + (B.a10 * (h * b) + B.a11 * (d - c * l) + B.a12 * (l * b)) ^ 2 + (B.a20 * (h * b) + B.a21 * (d - c * l) + B.a22 * (l * b)) ^ 2 - qval * b ^ 2

/-- the polynomial identity behind this branch, for EVERY value of `h` -/
theorem lF_ident (l qval : ℝ) (B : M3 ℝ) (b c d h : ℝ) :
    (h * (SolveL.divisor l qval B 0 b c d) - (SolveL.coefF l qval B 0 b c d)) ^ 2 - b ^ 2 * (SolveL.discriminant l qval B 0 b c d) = (SolveL.divisor l qval B 0 b c d) * lF_quad l qval B b c d h := by
  simp only [lF_quad, SolveL.divisor, SolveL.coefF, SolveL.discriminant, rs_ofNat]
  push_cast
  ring

theorem lF_onSphere (l qval : ℝ) (B : M3 ℝ) (b c d h k : ℝ) (ht : b ≠ 0)
    (hp : OnPlane 0 b c d (h, k, l)) : OnSphere B qval (h, k, l) ↔ lF_quad l qval B b c d h = 0 := by
  simp only [OnPlane] at hp
  rw [onSphere_iff]
  have ho : k * b = d - c * l := by linear_combination hp
  simp only [lF_quad]
  rw [← ho]
  constructor
  · intro hq; linear_combination (b ^ 2) * hq
  · intro hF
    have : ((B.a00 * h + B.a01 * k + B.a02 * l) ^ 2 + (B.a10 * h + B.a11 * k + B.a12 * l) ^ 2
      + (B.a20 * h + B.a21 * k + B.a22 * l) ^ 2 - qval) * b ^ 2 = 0 := by linear_combination hF
    rcases mul_eq_zero.mp this with h0 | h0
    · linarith
    · exact absurd (pow_eq_zero_iff (by norm_num) |>.mp h0) ht

theorem lF_sol_eq (l qval : ℝ) (B : M3 ℝ) (b c d s : ℝ) :
    (SolveL.solFs s l qval B 0 b c d) = (((((SolveL.coefF l qval B 0 b c d) - s * b) / (SolveL.divisor l qval B 0 b c d)), ((d - c * l) / b), l), ((((SolveL.coefF l qval B 0 b c d) + s * b) / (SolveL.divisor l qval B 0 b c d)), ((d - c * l) / b), l)) := by
  simp only [SolveL.solFs]
  try (refine Prod.ext (Prod.ext ?_ (Prod.ext ?_ ?_)) (Prod.ext ?_ (Prod.ext ?_ ?_)) <;> simp only [] <;> ring)

theorem lF_root_sound (l qval : ℝ) (B : M3 ℝ) (b c d s r : ℝ) (hs : s ^ 2 = (SolveL.discriminant l qval B 0 b c d)) (hdv : (SolveL.divisor l qval B 0 b c d) ≠ 0)
    (ht : b ≠ 0) (hr : r * (SolveL.divisor l qval B 0 b c d) - (SolveL.coefF l qval B 0 b c d) = s * b ∨ r * (SolveL.divisor l qval B 0 b c d) - (SolveL.coefF l qval B 0 b c d) = -(s * b)) :
    OnPlane 0 b c d (r, ((d - c * l) / b), l) ∧ OnSphere B qval (r, ((d - c * l) / b), l) := by
  have hp : OnPlane 0 b c d (r, ((d - c * l) / b), l) := by simp only [OnPlane]; field_simp; ring
  refine ⟨hp, ?_⟩
  rw [lF_onSphere l qval B b c d _ _ ht hp]
  have hid := lF_ident l qval B b c d r
  have hsq : (r * (SolveL.divisor l qval B 0 b c d) - (SolveL.coefF l qval B 0 b c d)) ^ 2 = (s * b) ^ 2 := by rcases hr with h1 | h1 <;> rw [h1] <;> ring
  have : (SolveL.divisor l qval B 0 b c d) * lF_quad l qval B b c d r = 0 := by linear_combination hsq - hid + (b ^ 2) * hs
  rcases mul_eq_zero.mp this with h0 | h0
  · exact absurd h0 hdv
  · exact h0

/-- **soundness**: both returned triples keep the fixed index, lie on the plane and on the sphere -/
theorem lF_sound (l qval : ℝ) (B : M3 ℝ) (b c d s : ℝ) (hs : s ^ 2 = (SolveL.discriminant l qval B 0 b c d)) (hdv : (SolveL.divisor l qval B 0 b c d) ≠ 0) (ht : b ≠ 0) :
    ((SolveL.solFs s l qval B 0 b c d).1.2.2 = l ∧ OnPlane 0 b c d (SolveL.solFs s l qval B 0 b c d).1 ∧ OnSphere B qval (SolveL.solFs s l qval B 0 b c d).1) ∧
    ((SolveL.solFs s l qval B 0 b c d).2.2.2 = l ∧ OnPlane 0 b c d (SolveL.solFs s l qval B 0 b c d).2 ∧ OnSphere B qval (SolveL.solFs s l qval B 0 b c d).2) := by
  rw [lF_sol_eq]
  have h1 := lF_root_sound l qval B b c d s (((SolveL.coefF l qval B 0 b c d) - s * b) / (SolveL.divisor l qval B 0 b c d)) hs hdv ht (Or.inr (by field_simp; ring))
  have h2 := lF_root_sound l qval B b c d s (((SolveL.coefF l qval B 0 b c d) + s * b) / (SolveL.divisor l qval B 0 b c d)) hs hdv ht (Or.inl (by field_simp; ring))
  exact ⟨⟨rfl, h1.1, h1.2⟩, ⟨rfl, h2.1, h2.2⟩⟩

/-- **completeness**: every point of the plane–sphere intersection with the fixed index is one of the two returned -/
theorem lF_complete (l qval : ℝ) (B : M3 ℝ) (b c d s h k : ℝ) (hs : s ^ 2 = (SolveL.discriminant l qval B 0 b c d)) (hdv : (SolveL.divisor l qval B 0 b c d) ≠ 0) (ht : b ≠ 0)
    (hp : OnPlane 0 b c d (h, k, l)) (hq : OnSphere B qval (h, k, l)) :
    (h, k, l) = (SolveL.solFs s l qval B 0 b c d).1 ∨ (h, k, l) = (SolveL.solFs s l qval B 0 b c d).2 := by
  rw [lF_sol_eq]
  have hQ := (lF_onSphere l qval B b c d h k ht hp).mp hq
  have hid := lF_ident l qval B b c d h
  have key : (h * (SolveL.divisor l qval B 0 b c d) - (SolveL.coefF l qval B 0 b c d)) ^ 2 = (s * b) ^ 2 := by
    rw [hQ] at hid; linear_combination hid - (b ^ 2) * hs
  simp only [OnPlane] at hp
  have ho : k * b = d - c * l := by linear_combination hp
  have hoe : k = (d - c * l) / b := by field_simp; linear_combination ho
  rcases sq_eq_sq_iff_eq_or_eq_neg.mp key with h1 | h1
  · right
    have hf : h = (((SolveL.coefF l qval B 0 b c d) + s * b) / (SolveL.divisor l qval B 0 b c d)) := by field_simp; linear_combination h1
    simp only [Prod.mk.injEq, true_and, and_true]
    refine ⟨?_, ?_⟩ <;> first | exact hf | exact hoe | (rw [← hf]; exact hoe) | rfl
  · left
    have hf : h = (((SolveL.coefF l qval B 0 b c d) - s * b) / (SolveL.divisor l qval B 0 b c d)) := by field_simp; linear_combination h1
    simp only [Prod.mk.injEq, true_and, and_true]
    refine ⟨?_, ?_⟩ <;> first | exact hf | exact hoe | (rw [← hf]; exact hoe) | rfl

/-- **rejection**: with a negative discriminant the plane misses the sphere -/
theorem lF_no_solution (l qval : ℝ) (B : M3 ℝ) (b c d h k : ℝ) (hneg : (SolveL.discriminant l qval B 0 b c d) < 0) (hdv : (SolveL.divisor l qval B 0 b c d) ≠ 0) (ht : b ≠ 0)
    (hp : OnPlane 0 b c d (h, k, l)) : ¬ OnSphere B qval (h, k, l) := by
  intro hq
  have hQ := (lF_onSphere l qval B b c d h k ht hp).mp hq
  have hid := lF_ident l qval B b c d h
  rw [hQ] at hid
  have h1 : 0 ≤ (h * (SolveL.divisor l qval B 0 b c d) - (SolveL.coefF l qval B 0 b c d)) ^ 2 := sq_nonneg _
  have h2 : 0 < b ^ 2 := by positivity
  nlinarith

/-- **tangency**: the two returned triples coincide exactly when the discriminant vanishes -/
theorem lF_tangent (l qval : ℝ) (B : M3 ℝ) (b c d s : ℝ) (hs : s ^ 2 = (SolveL.discriminant l qval B 0 b c d)) (hdv : (SolveL.divisor l qval B 0 b c d) ≠ 0) (ht : b ≠ 0) :
    (SolveL.solFs s l qval B 0 b c d).1 = (SolveL.solFs s l qval B 0 b c d).2 ↔ (SolveL.discriminant l qval B 0 b c d) = 0 := by
  rw [lF_sol_eq]
  constructor
  · intro he
    have hf : (((SolveL.coefF l qval B 0 b c d) - s * b) / (SolveL.divisor l qval B 0 b c d)) = (((SolveL.coefF l qval B 0 b c d) + s * b) / (SolveL.divisor l qval B 0 b c d)) := by
      have := congrArg (fun v : ℝ × ℝ × ℝ => v.1) he
      simpa using this
    have : s * b = 0 := by
      field_simp at hf
      linarith
    have hs0 : s = 0 := by rcases mul_eq_zero.mp this with h0 | h0; exact h0; exact absurd h0 ht
    rw [← hs, hs0]; ring
  · intro h0
    have hs0 : s = 0 := by rw [h0] at hs; exact pow_eq_zero_iff (by norm_num) |>.mp hs
    subst hs0
    simp


/-! ## `SolveH.solve`: control flow -/

/-- the divisor is the squared length of `b·B[:,2] − c·B[:,1]` -/
theorem h_divisor_sq (h qval : ℝ) (B : M3 ℝ) (a b c d : ℝ) :
    SolveH.divisor h qval B a b c d = (B.a02 * b - B.a01 * c) ^ 2 + (B.a12 * b - B.a11 * c) ^ 2 + (B.a22 * b - B.a21 * c) ^ 2 := by
  simp only [SolveH.divisor, rs_ofNat]; push_cast; ring

/-- for an invertible matrix the divisor vanishes exactly when both free coefficients vanish (the line is undefined) -/
theorem h_divisor_zero_iff (h qval : ℝ) (B : M3 ℝ) (a b c d : ℝ) (hdet : M3.det B ≠ 0) :
    SolveH.divisor h qval B a b c d = 0 ↔ (b = 0 ∧ c = 0) := by
  rw [h_divisor_sq]
  constructor
  · intro h0
    have e0 : B.a02 * b - B.a01 * c = 0 := by nlinarith [sq_nonneg (B.a02 * b - B.a01 * c), sq_nonneg (B.a12 * b - B.a11 * c), sq_nonneg (B.a22 * b - B.a21 * c)]
    have e1 : B.a12 * b - B.a11 * c = 0 := by nlinarith [sq_nonneg (B.a02 * b - B.a01 * c), sq_nonneg (B.a12 * b - B.a11 * c), sq_nonneg (B.a22 * b - B.a21 * c)]
    have e2 : B.a22 * b - B.a21 * c = 0 := by nlinarith [sq_nonneg (B.a02 * b - B.a01 * c), sq_nonneg (B.a12 * b - B.a11 * c), sq_nonneg (B.a22 * b - B.a21 * c)]
    have hu : b * M3.det B = 0 ∨ b * M3.det B = 0 := Or.inl (by
      simp only [M3.det]
      first
        | linear_combination (B.a10 * B.a21 - B.a11 * B.a20) * e0 + (B.a20 * B.a01 - B.a21 * B.a00) * e1 + (B.a00 * B.a11 - B.a01 * B.a10) * e2
        | linear_combination -(B.a10 * B.a21 - B.a11 * B.a20) * e0 - (B.a20 * B.a01 - B.a21 * B.a00) * e1 - (B.a00 * B.a11 - B.a01 * B.a10) * e2)
    have hw : c * M3.det B = 0 ∨ c * M3.det B = 0 := Or.inl (by
      simp only [M3.det]
      first
        | linear_combination (B.a10 * B.a22 - B.a12 * B.a20) * e0 + (B.a20 * B.a02 - B.a22 * B.a00) * e1 + (B.a00 * B.a12 - B.a02 * B.a10) * e2
        | linear_combination -(B.a10 * B.a22 - B.a12 * B.a20) * e0 - (B.a20 * B.a02 - B.a22 * B.a00) * e1 - (B.a00 * B.a12 - B.a02 * B.a10) * e2)
    refine ⟨?_, ?_⟩
    · rcases hu with h1 | h1 <;> (rcases mul_eq_zero.mp h1 with h2 | h2; exact h2; exact absurd h2 hdet)
    · rcases hw with h1 | h1 <;> (rcases mul_eq_zero.mp h1 with h2 | h2; exact h2; exact absurd h2 hdet)
  · rintro ⟨rfl, rfl⟩; ring

theorem hF_t_ne (h qval : ℝ) (B : M3 ℝ) (a c d : ℝ) (hdv : SolveH.divisor h qval B a 0 c d ≠ 0) : c ≠ 0 := by
  intro h0; apply hdv; rw [h_divisor_sq]; subst h0; ring

/-- **C19 for `solve_h_fixed_q`**: what the function returns, in every case -/
theorem h_solve_spec (h qval : ℝ) (B : M3 ℝ) (a b c d : ℝ) :
    (∀ v1 v2, SolveH.solve h qval B a b c d = .ok [v1, v2] →
        (v1.1 = h ∧ OnPlane a b c d v1 ∧ OnSphere B qval v1) ∧ (v2.1 = h ∧ OnPlane a b c d v2 ∧ OnSphere B qval v2) ∧
        (∀ k l, OnPlane a b c d (h, k, l) → OnSphere B qval (h, k, l) → (h, k, l) = v1 ∨ (h, k, l) = v2) ∧
        (v1 = v2 ↔ SolveH.discriminant h qval B a b c d = 0)) ∧
    (∀ e, SolveH.solve h qval B a b c d = .error e → e = .dce ∧
        (SolveH.divisor h qval B a b c d = 0 ∨ (SolveH.discriminant h qval B a b c d < 0 ∧ ∀ k l, OnPlane a b c d (h, k, l) → ¬ OnSphere B qval (h, k, l)))) ∧
    (∀ vs, SolveH.solve h qval B a b c d = .ok vs → vs.length = 2) := by
  unfold SolveH.solve
  simp only [rs_beq, rs_lt, rs_ofNat, Nat.cast_zero, rs_sqrt]
  by_cases hdv : SolveH.divisor h qval B a b c d = 0
  · simp [hdv]
  by_cases hneg : SolveH.discriminant h qval B a b c d < 0
  · simp only [hdv, hneg, decide_false, decide_true, Bool.false_eq_true, if_false, if_true]
    refine ⟨(by intro v1 v2 h; cases h), ?_, (by intro vs h; cases h)⟩
    intro e he; cases he
    refine ⟨rfl, Or.inr ⟨?_, ?_⟩⟩
    · first | exact hneg | trivial
    intro k l hp
    by_cases ht : b = 0
    · subst ht
      exact hF_no_solution h qval B a c d k l hneg hdv (hF_t_ne h qval B a c d hdv) hp
    · exact hT_no_solution h qval B a b c d k l hneg hdv ht hp
  have hnn : 0 ≤ SolveH.discriminant h qval B a b c d := not_lt.mp hneg
  have hs : Real.sqrt (SolveH.discriminant h qval B a b c d) ^ 2 = SolveH.discriminant h qval B a b c d := Real.sq_sqrt hnn
  simp only [hdv, hneg, decide_false, Bool.false_eq_true, if_false]
  by_cases ht : b = 0
  · subst ht
    have htf := hF_t_ne h qval B a c d hdv
    simp only [decide_true, Bool.not_true, Bool.false_eq_true, if_false]
    refine ⟨?_, (by intro e he; cases he), (by intro vs h; cases h; rfl)⟩
    intro v1 v2 h
    simp only [Except.ok.injEq, List.cons.injEq, and_true] at h
    obtain ⟨rfl, rfl⟩ := h
    have hsound := hF_sound h qval B a c d _ hs hdv htf
    refine ⟨hsound.1, hsound.2, ?_, hF_tangent h qval B a c d _ hs hdv htf⟩
    intro k l hp hq
    exact hF_complete h qval B a c d _ k l hs hdv htf hp hq
  · simp only [ht, decide_false, Bool.not_false, if_true]
    refine ⟨?_, (by intro e he; cases he), (by intro vs h; cases h; rfl)⟩
    intro v1 v2 h
    simp only [Except.ok.injEq, List.cons.injEq, and_true] at h
    obtain ⟨rfl, rfl⟩ := h
    have hsound := hT_sound h qval B a b c d _ hs hdv ht
    refine ⟨hsound.1, hsound.2, ?_, hT_tangent h qval B a b c d _ hs hdv ht⟩
    intro k l hp hq
    exact hT_complete h qval B a b c d _ k l hs hdv ht hp hq


/-! ## `SolveK.solve`: control flow -/

/-- the divisor is the squared length of `a·B[:,2] − c·B[:,0]` -/
theorem k_divisor_sq (k qval : ℝ) (B : M3 ℝ) (a b c d : ℝ) :
    SolveK.divisor k qval B a b c d = (B.a02 * a - B.a00 * c) ^ 2 + (B.a12 * a - B.a10 * c) ^ 2 + (B.a22 * a - B.a20 * c) ^ 2 := by
  simp only [SolveK.divisor, rs_ofNat]; push_cast; ring

/-- for an invertible matrix the divisor vanishes exactly when both free coefficients vanish (the line is undefined) -/
theorem k_divisor_zero_iff (k qval : ℝ) (B : M3 ℝ) (a b c d : ℝ) (hdet : M3.det B ≠ 0) :
    SolveK.divisor k qval B a b c d = 0 ↔ (a = 0 ∧ c = 0) := by
  rw [k_divisor_sq]
  constructor
  · intro h0
    have e0 : B.a02 * a - B.a00 * c = 0 := by nlinarith [sq_nonneg (B.a02 * a - B.a00 * c), sq_nonneg (B.a12 * a - B.a10 * c), sq_nonneg (B.a22 * a - B.a20 * c)]
    have e1 : B.a12 * a - B.a10 * c = 0 := by nlinarith [sq_nonneg (B.a02 * a - B.a00 * c), sq_nonneg (B.a12 * a - B.a10 * c), sq_nonneg (B.a22 * a - B.a20 * c)]
    have e2 : B.a22 * a - B.a20 * c = 0 := by nlinarith [sq_nonneg (B.a02 * a - B.a00 * c), sq_nonneg (B.a12 * a - B.a10 * c), sq_nonneg (B.a22 * a - B.a20 * c)]
    have hu : a * M3.det B = 0 ∨ a * M3.det B = 0 := Or.inl (by
      simp only [M3.det]
      first
        | linear_combination (B.a11 * B.a20 - B.a10 * B.a21) * e0 + (B.a21 * B.a00 - B.a20 * B.a01) * e1 + (B.a01 * B.a10 - B.a00 * B.a11) * e2
        | linear_combination -(B.a11 * B.a20 - B.a10 * B.a21) * e0 - (B.a21 * B.a00 - B.a20 * B.a01) * e1 - (B.a01 * B.a10 - B.a00 * B.a11) * e2)
    have hw : c * M3.det B = 0 ∨ c * M3.det B = 0 := Or.inl (by
      simp only [M3.det]
      first
        | linear_combination (B.a11 * B.a22 - B.a12 * B.a21) * e0 + (B.a21 * B.a02 - B.a22 * B.a01) * e1 + (B.a01 * B.a12 - B.a02 * B.a11) * e2
        | linear_combination -(B.a11 * B.a22 - B.a12 * B.a21) * e0 - (B.a21 * B.a02 - B.a22 * B.a01) * e1 - (B.a01 * B.a12 - B.a02 * B.a11) * e2)
    refine ⟨?_, ?_⟩
    · rcases hu with h1 | h1 <;> (rcases mul_eq_zero.mp h1 with h2 | h2; exact h2; exact absurd h2 hdet)
    · rcases hw with h1 | h1 <;> (rcases mul_eq_zero.mp h1 with h2 | h2; exact h2; exact absurd h2 hdet)
  · rintro ⟨rfl, rfl⟩; ring

theorem kF_t_ne (k qval : ℝ) (B : M3 ℝ) (b c d : ℝ) (hdv : SolveK.divisor k qval B 0 b c d ≠ 0) : c ≠ 0 := by
  intro h0; apply hdv; rw [k_divisor_sq]; subst h0; ring

/-- **C19 for `solve_k_fixed_q`**: what the function returns, in every case -/
theorem k_solve_spec (k qval : ℝ) (B : M3 ℝ) (a b c d : ℝ) :
    (∀ v1 v2, SolveK.solve k qval B a b c d = .ok [v1, v2] →
        (v1.2.1 = k ∧ OnPlane a b c d v1 ∧ OnSphere B qval v1) ∧ (v2.2.1 = k ∧ OnPlane a b c d v2 ∧ OnSphere B qval v2) ∧
        (∀ h l, OnPlane a b c d (h, k, l) → OnSphere B qval (h, k, l) → (h, k, l) = v1 ∨ (h, k, l) = v2) ∧
        (v1 = v2 ↔ SolveK.discriminant k qval B a b c d = 0)) ∧
    (∀ e, SolveK.solve k qval B a b c d = .error e → e = .dce ∧
        (SolveK.divisor k qval B a b c d = 0 ∨ (SolveK.discriminant k qval B a b c d < 0 ∧ ∀ h l, OnPlane a b c d (h, k, l) → ¬ OnSphere B qval (h, k, l)))) ∧
    (∀ vs, SolveK.solve k qval B a b c d = .ok vs → vs.length = 2) := by
  unfold SolveK.solve
  simp only [rs_beq, rs_lt, rs_ofNat, Nat.cast_zero, rs_sqrt]
  by_cases hdv : SolveK.divisor k qval B a b c d = 0
  · simp [hdv]
  by_cases hneg : SolveK.discriminant k qval B a b c d < 0
  · simp only [hdv, hneg, decide_false, decide_true, Bool.false_eq_true, if_false, if_true]
    refine ⟨(by intro v1 v2 h; cases h), ?_, (by intro vs h; cases h)⟩
    intro e he; cases he
    refine ⟨rfl, Or.inr ⟨?_, ?_⟩⟩
    · first | exact hneg | trivial
    intro h l hp
    by_cases ht : a = 0
    · subst ht
      exact kF_no_solution k qval B b c d h l hneg hdv (kF_t_ne k qval B b c d hdv) hp
    · exact kT_no_solution k qval B a b c d h l hneg hdv ht hp
  have hnn : 0 ≤ SolveK.discriminant k qval B a b c d := not_lt.mp hneg
  have hs : Real.sqrt (SolveK.discriminant k qval B a b c d) ^ 2 = SolveK.discriminant k qval B a b c d := Real.sq_sqrt hnn
  simp only [hdv, hneg, decide_false, Bool.false_eq_true, if_false]
  by_cases ht : a = 0
  · subst ht
    have htf := kF_t_ne k qval B b c d hdv
    simp only [decide_true, Bool.not_true, Bool.false_eq_true, if_false]
    refine ⟨?_, (by intro e he; cases he), (by intro vs h; cases h; rfl)⟩
    intro v1 v2 h
    simp only [Except.ok.injEq, List.cons.injEq, and_true] at h
    obtain ⟨rfl, rfl⟩ := h
    have hsound := kF_sound k qval B b c d _ hs hdv htf
    refine ⟨hsound.1, hsound.2, ?_, kF_tangent k qval B b c d _ hs hdv htf⟩
    intro h l hp hq
    exact kF_complete k qval B b c d _ h l hs hdv htf hp hq
  · simp only [ht, decide_false, Bool.not_false, if_true]
    refine ⟨?_, (by intro e he; cases he), (by intro vs h; cases h; rfl)⟩
    intro v1 v2 h
    simp only [Except.ok.injEq, List.cons.injEq, and_true] at h
    obtain ⟨rfl, rfl⟩ := h
    have hsound := kT_sound k qval B a b c d _ hs hdv ht
    refine ⟨hsound.1, hsound.2, ?_, kT_tangent k qval B a b c d _ hs hdv ht⟩
    intro h l hp hq
    exact kT_complete k qval B a b c d _ h l hs hdv ht hp hq


/-! ## `SolveL.solve`: control flow -/

/-- the divisor is the squared length of `a·B[:,1] − b·B[:,0]` -/
theorem l_divisor_sq (l qval : ℝ) (B : M3 ℝ) (a b c d : ℝ) :
    SolveL.divisor l qval B a b c d = (B.a01 * a - B.a00 * b) ^ 2 + (B.a11 * a - B.a10 * b) ^ 2 + (B.a21 * a - B.a20 * b) ^ 2 := by
  simp only [SolveL.divisor, rs_ofNat]; push_cast; ring

/-- for an invertible matrix the divisor vanishes exactly when both free coefficients vanish (the line is undefined) -/
theorem l_divisor_zero_iff (l qval : ℝ) (B : M3 ℝ) (a b c d : ℝ) (hdet : M3.det B ≠ 0) :
    SolveL.divisor l qval B a b c d = 0 ↔ (a = 0 ∧ b = 0) := by
  rw [l_divisor_sq]
  constructor
  · intro h0
    have e0 : B.a01 * a - B.a00 * b = 0 := by nlinarith [sq_nonneg (B.a01 * a - B.a00 * b), sq_nonneg (B.a11 * a - B.a10 * b), sq_nonneg (B.a21 * a - B.a20 * b)]
    have e1 : B.a11 * a - B.a10 * b = 0 := by nlinarith [sq_nonneg (B.a01 * a - B.a00 * b), sq_nonneg (B.a11 * a - B.a10 * b), sq_nonneg (B.a21 * a - B.a20 * b)]
    have e2 : B.a21 * a - B.a20 * b = 0 := by nlinarith [sq_nonneg (B.a01 * a - B.a00 * b), sq_nonneg (B.a11 * a - B.a10 * b), sq_nonneg (B.a21 * a - B.a20 * b)]
    have hu : a * M3.det B = 0 ∨ a * M3.det B = 0 := Or.inl (by
      simp only [M3.det]
      first
        | linear_combination (B.a12 * B.a20 - B.a10 * B.a22) * e0 + (B.a22 * B.a00 - B.a20 * B.a02) * e1 + (B.a02 * B.a10 - B.a00 * B.a12) * e2
        | linear_combination -(B.a12 * B.a20 - B.a10 * B.a22) * e0 - (B.a22 * B.a00 - B.a20 * B.a02) * e1 - (B.a02 * B.a10 - B.a00 * B.a12) * e2)
    have hw : b * M3.det B = 0 ∨ b * M3.det B = 0 := Or.inl (by
      simp only [M3.det]
      first
        | linear_combination (B.a12 * B.a21 - B.a11 * B.a22) * e0 + (B.a22 * B.a01 - B.a21 * B.a02) * e1 + (B.a02 * B.a11 - B.a01 * B.a12) * e2
        | linear_combination -(B.a12 * B.a21 - B.a11 * B.a22) * e0 - (B.a22 * B.a01 - B.a21 * B.a02) * e1 - (B.a02 * B.a11 - B.a01 * B.a12) * e2)
    refine ⟨?_, ?_⟩
    · rcases hu with h1 | h1 <;> (rcases mul_eq_zero.mp h1 with h2 | h2; exact h2; exact absurd h2 hdet)
    · rcases hw with h1 | h1 <;> (rcases mul_eq_zero.mp h1 with h2 | h2; exact h2; exact absurd h2 hdet)
  · rintro ⟨rfl, rfl⟩; ring

theorem lF_t_ne (l qval : ℝ) (B : M3 ℝ) (b c d : ℝ) (hdv : SolveL.divisor l qval B 0 b c d ≠ 0) : b ≠ 0 := by
  intro h0; apply hdv; rw [l_divisor_sq]; subst h0; ring

/-- **C19 for `solve_l_fixed_q`**: what the function returns, in every case -/
theorem l_solve_spec (l qval : ℝ) (B : M3 ℝ) (a b c d : ℝ) :
    (∀ v1 v2, SolveL.solve l qval B a b c d = .ok [v1, v2] →
        (v1.2.2 = l ∧ OnPlane a b c d v1 ∧ OnSphere B qval v1) ∧ (v2.2.2 = l ∧ OnPlane a b c d v2 ∧ OnSphere B qval v2) ∧
        (∀ h k, OnPlane a b c d (h, k, l) → OnSphere B qval (h, k, l) → (h, k, l) = v1 ∨ (h, k, l) = v2) ∧
        (v1 = v2 ↔ SolveL.discriminant l qval B a b c d = 0)) ∧
    (∀ e, SolveL.solve l qval B a b c d = .error e → e = .dce ∧
        (SolveL.divisor l qval B a b c d = 0 ∨ (SolveL.discriminant l qval B a b c d < 0 ∧ ∀ h k, OnPlane a b c d (h, k, l) → ¬ OnSphere B qval (h, k, l)))) ∧
    (∀ vs, SolveL.solve l qval B a b c d = .ok vs → vs.length = 2) := by
  unfold SolveL.solve
  simp only [rs_beq, rs_lt, rs_ofNat, Nat.cast_zero, rs_sqrt]
  by_cases hdv : SolveL.divisor l qval B a b c d = 0
  · simp [hdv]
  by_cases hneg : SolveL.discriminant l qval B a b c d < 0
  · simp only [hdv, hneg, decide_false, decide_true, Bool.false_eq_true, if_false, if_true]
    refine ⟨(by intro v1 v2 h; cases h), ?_, (by intro vs h; cases h)⟩
    intro e he; cases he
    refine ⟨rfl, Or.inr ⟨?_, ?_⟩⟩
    · first | exact hneg | trivial
    intro h k hp
    by_cases ht : a = 0
    · subst ht
      exact lF_no_solution l qval B b c d h k hneg hdv (lF_t_ne l qval B b c d hdv) hp
    · exact lT_no_solution l qval B a b c d h k hneg hdv ht hp
  have hnn : 0 ≤ SolveL.discriminant l qval B a b c d := not_lt.mp hneg
  have hs : Real.sqrt (SolveL.discriminant l qval B a b c d) ^ 2 = SolveL.discriminant l qval B a b c d := Real.sq_sqrt hnn
  simp only [hdv, hneg, decide_false, Bool.false_eq_true, if_false]
  by_cases ht : a = 0
  · subst ht
    have htf := lF_t_ne l qval B b c d hdv
    simp only [decide_true, Bool.not_true, Bool.false_eq_true, if_false]
    refine ⟨?_, (by intro e he; cases he), (by intro vs h; cases h; rfl)⟩
    intro v1 v2 h
    simp only [Except.ok.injEq, List.cons.injEq, and_true] at h
    obtain ⟨rfl, rfl⟩ := h
    have hsound := lF_sound l qval B b c d _ hs hdv htf
    refine ⟨hsound.1, hsound.2, ?_, lF_tangent l qval B b c d _ hs hdv htf⟩
    intro h k hp hq
    exact lF_complete l qval B b c d _ h k hs hdv htf hp hq
  · simp only [ht, decide_false, Bool.not_false, if_true]
    refine ⟨?_, (by intro e he; cases he), (by intro vs h; cases h; rfl)⟩
    intro v1 v2 h
    simp only [Except.ok.injEq, List.cons.injEq, and_true] at h
    obtain ⟨rfl, rfl⟩ := h
    have hsound := lT_sound l qval B a b c d _ hs hdv ht
    refine ⟨hsound.1, hsound.2, ?_, lT_tangent l qval B a b c d _ hs hdv ht⟩
    intro h k hp hq
    exact lT_complete l qval B a b c d _ h k hs hdv ht hp hq

end
end C19
