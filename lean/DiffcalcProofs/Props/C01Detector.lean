import DiffcalcProofs.Props.C01Sample
/-!
# C01 — the detector layers from delta and from nu are exact (`calc_detector.py`)

Every `(delta, nu, qaz)` returned by `_calc_remaining_detector_angles_delta` / `_nu` satisfies the detector relation, on the generic branch
(arguments of `asin` / `acos` not clipped, the quantities whose signs are compared not within 1e-7 of zero).
-/
namespace C01
open M3 Solver Scalar PyOps
noncomputable section

/-- same squares and same (non-zero) product of signs ⇒ equal -/
theorem eq_of_sq_eq_of_sign (a b c d : ℝ) (ha : Scalar.isSmall a = false) (hb : Scalar.isSmall b = false)
    (hc : Scalar.isSmall c = false) (hd : Scalar.isSmall d = false)
    (hsq : (a * b) ^ 2 = (c * d) ^ 2)
    (hsg : (Scalar.sign a : ℝ) * Scalar.sign b = Scalar.sign c * Scalar.sign d) : a * b = c * d := by
  obtain ⟨a1, a2⟩ := sign_facts a ha
  obtain ⟨b1, b2⟩ := sign_facts b hb
  obtain ⟨c1, c2⟩ := sign_facts c hc
  obtain ⟨d1, d2⟩ := sign_facts d hd
  have e1 : a * b = (Scalar.sign a * Scalar.sign b) * (|a| * |b|) := by
    rw [← a1, ← b1]; linear_combination (-(a * b) * Scalar.sign b ^ 2) * a2 + (-(a * b)) * b2
  have e2 : c * d = (Scalar.sign c * Scalar.sign d) * (|c| * |d|) := by
    rw [← c1, ← d1]; linear_combination (-(c * d) * Scalar.sign d ^ 2) * c2 + (-(c * d)) * d2
  have hm : |a| * |b| = |c| * |d| := by
    have h1 : (|a| * |b|) ^ 2 = (|c| * |d|) ^ 2 := by
      have : (|a| * |b|) ^ 2 = (a * b) ^ 2 := by rw [mul_pow, mul_pow, sq_abs, sq_abs]
      rw [this, hsq]; rw [mul_pow, mul_pow, sq_abs, sq_abs]
    have p1 : 0 ≤ |a| * |b| := by positivity
    have p2 : 0 ≤ |c| * |d| := by positivity
    nlinarith [sq_nonneg (|a| * |b| - |c| * |d|), sq_nonneg (|a| * |b| + |c| * |d|)]
  rw [e1, e2, hsg, hm]

/-- **detector layer from delta** -/
theorem detFromDelta_sound (delta theta : ℝ) (hcd : Scalar.isSmall (Real.cos delta) = false)
    (hs2 : Scalar.isSmall (Real.sin (2 * theta)) = false)
    (hclipq : |Real.sin delta / Real.sin (2 * theta)| ≤ 1) (hclipn : |Real.cos (2 * theta) / Real.cos delta| ≤ 1)
    (hgq : Scalar.isSmall (Real.cos (Real.arcsin (Real.sin delta / Real.sin (2 * theta)))) = false)
    (hgn : Scalar.isSmall (Real.arccos (Real.cos (2 * theta) / Real.cos delta)) = false) :
    AllOk (fun t : ℝ × ℝ × ℝ => Scalar.isSmall (Real.sin t.2.1) = false → DetSpec t.1 t.2.1 t.2.2 theta) (detFromDelta delta theta) := by
  unfold detFromDelta acosNu
  simp only [rs_sin, rs_cos, rs_two, rs_pi, rs_zero]
  apply allOk_catchAssert
  apply allOk_bind
  intro a ha
  obtain ⟨hav, hsa⟩ := boundAsin_ok hclipq ha
  rw [if_neg (by rw [hcd]; simp)]
  apply allOk_bind
  intro c hc
  obtain ⟨hcv, hcc⟩ := boundAcos_ok hclipn hc
  rw [← hav] at hgq
  rw [← hcv] at hgn
  simp only [hgq, hgn, Bool.false_eq_true, if_false]
  apply allOk_ok
  intro t ht hsn
  simp only [pure, List.mem_filterMap] at ht
  obtain ⟨⟨qaz, nu⟩, hp, hsome⟩ := ht
  simp only [List.flatMap_cons, List.flatMap_nil, List.map_cons, List.map_nil, List.append_nil, List.cons_append, List.nil_append,
    List.mem_cons, List.not_mem_nil, or_false, Prod.mk.injEq] at hp
  split at hsome
  · rename_i hbeq
    simp only [Option.some.injEq] at hsome
    subst hsome
    simp only [] at hsn ⊢
    have hcdne := not_small_ne_zero hcd
    have hs2ne := not_small_ne_zero hs2
    have hsq : Real.sin qaz = Real.sin delta / Real.sin (2 * theta) := by
      rcases hp with ⟨rfl, _⟩ | ⟨rfl, _⟩ | ⟨rfl, _⟩ | ⟨rfl, _⟩ <;> simp [hsa, Real.sin_pi_sub]
    have hcn : Real.cos nu = Real.cos (2 * theta) / Real.cos delta := by
      rcases hp with ⟨_, rfl⟩ | ⟨_, rfl⟩ | ⟨_, rfl⟩ | ⟨_, rfl⟩ <;> simp [hcc]
    have hcq : Scalar.isSmall (Real.cos qaz) = false := by
      rcases hp with ⟨rfl, _⟩ | ⟨rfl, _⟩ | ⟨rfl, _⟩ | ⟨rfl, _⟩
      · exact hgq
      · exact hgq
      · rw [Real.cos_pi_sub, isSmall_real] at *; simpa using hgq
      · rw [Real.cos_pi_sub, isSmall_real] at *; simpa using hgq
    have e1 : Real.sin delta = Real.sin (2 * theta) * Real.sin qaz := by rw [hsq]; field_simp
    have e3 : Real.cos delta * Real.cos nu = Real.cos (2 * theta) := by rw [hcn]; field_simp
    refine ⟨e1, ?_, e3⟩
    -- the sign filter decides the remaining relation
    have hsgn : (Scalar.sign (Real.sin (2 * theta)) : ℝ) * Scalar.sign (Real.cos qaz) = Scalar.sign (Real.sin nu) * Scalar.sign (Real.cos delta) := by
      simpa [rs_beq] using hbeq
    have h1 := Real.sin_sq_add_cos_sq delta
    have h2 := Real.sin_sq_add_cos_sq (2 * theta)
    have h3 := Real.sin_sq_add_cos_sq qaz
    have h4 := Real.sin_sq_add_cos_sq nu
    have hsqs : (Real.sin (2 * theta) * Real.cos qaz) ^ 2 = (Real.sin nu * Real.cos delta) ^ 2 := by
      have : (Real.sin (2 * theta) * Real.cos qaz) ^ 2 = Real.sin (2 * theta) ^ 2 - Real.sin delta ^ 2 := by
        rw [e1]; linear_combination (Real.sin (2 * theta) ^ 2) * h3
      rw [this]
      have : (Real.sin nu * Real.cos delta) ^ 2 = Real.cos delta ^ 2 - Real.cos (2 * theta) ^ 2 := by
        rw [← e3]; linear_combination (Real.cos delta ^ 2) * h4
      rw [this]; linear_combination h2 - h1
    have := eq_of_sq_eq_of_sign _ _ _ _ hs2 hcq hsn hcd hsqs hsgn
    linear_combination (-1 : ℝ) * this
  · cases hsome

/-- **detector layer from nu** -/
theorem detFromNu_sound (nu theta : ℝ)
    (hs2 : Scalar.isSmall (Real.sin (2 * theta)) = false)
    (hclipd : |Real.cos (2 * theta) / Real.cos nu| ≤ 1)
    (hclipq : |Real.cos (2 * theta) / Real.cos nu * Real.sin nu / Real.sin (2 * theta)| ≤ 1)
    (hgd : Scalar.isSmall (Real.arccos (Real.cos (2 * theta) / Real.cos nu)) = false)
    (hgq : Scalar.isSmall (Real.arccos (Real.cos (2 * theta) / Real.cos nu * Real.sin nu / Real.sin (2 * theta))) = false) :
    AllOk (fun t : ℝ × ℝ × ℝ => Scalar.isSmall (Real.sin t.1) = false → Scalar.isSmall (Real.sin t.2.2) = false → DetSpec t.1 t.2.1 t.2.2 theta)
      (detFromNu nu theta) := by
  unfold detFromNu
  simp only [rs_sin, rs_cos, rs_two, rs_zero]
  split
  · exact allOk_error _
  · rename_i hcn
    have hcnne : Real.cos nu ≠ 0 := not_small_ne_zero (by simpa using hcn)
    have hs2ne := not_small_ne_zero hs2
    apply allOk_catchAssert
    apply allOk_bind
    intro d hd
    obtain ⟨hdv, hcd⟩ := boundAcos_ok hclipd hd
    apply allOk_bind
    intro q hq
    obtain ⟨hqv, hcq⟩ := boundAcos_ok hclipq hq
    rw [← hdv] at hgd
    rw [← hqv] at hgq
    simp only [hgd, hgq, Bool.false_eq_true, if_false]
    apply allOk_ok
    intro t ht hsd hsq
    simp only [List.mem_filterMap] at ht
    obtain ⟨⟨qaz, delta⟩, hp, hsome⟩ := ht
    simp only [List.flatMap_cons, List.flatMap_nil, List.map_cons, List.map_nil, List.append_nil, List.cons_append, List.nil_append,
      List.mem_cons, List.not_mem_nil, or_false, Prod.mk.injEq] at hp
    split at hsome
    · rename_i hbeq
      simp only [Option.some.injEq] at hsome
      subst hsome
      simp only [] at hsd hsq ⊢
      have hcdl : Real.cos delta = Real.cos (2 * theta) / Real.cos nu := by
        rcases hp with ⟨_, rfl⟩ | ⟨_, rfl⟩ | ⟨_, rfl⟩ | ⟨_, rfl⟩ <;> simp [hcd]
      have hcqz : Real.cos qaz = Real.cos (2 * theta) / Real.cos nu * Real.sin nu / Real.sin (2 * theta) := by
        rcases hp with ⟨rfl, _⟩ | ⟨rfl, _⟩ | ⟨rfl, _⟩ | ⟨rfl, _⟩ <;> simp [hcq]
      have e3 : Real.cos delta * Real.cos nu = Real.cos (2 * theta) := by rw [hcdl]; field_simp
      have e2 : Real.cos delta * Real.sin nu = Real.sin (2 * theta) * Real.cos qaz := by rw [hcqz, hcdl]; field_simp
      refine ⟨?_, e2, e3⟩
      have hsgn : (Scalar.sign (Real.sin delta) : ℝ) = Scalar.sign (Real.sin qaz) * Scalar.sign (Real.sin (2 * theta)) := by
        simpa [rs_beq] using hbeq
      have h1 := Real.sin_sq_add_cos_sq delta
      have h2 := Real.sin_sq_add_cos_sq (2 * theta)
      have h3 := Real.sin_sq_add_cos_sq qaz
      have h4 := Real.sin_sq_add_cos_sq nu
      have hone : Scalar.isSmall (1 : ℝ) = false := by rw [isSmall_real]; simp; norm_num
      have hsone : (Scalar.sign (1 : ℝ) : ℝ) = 1 := sign_pos_of 1 (by norm_num)
      have hsqs : (Real.sin delta * 1) ^ 2 = (Real.sin qaz * Real.sin (2 * theta)) ^ 2 := by
        have a1 : (Real.sin qaz * Real.sin (2 * theta)) ^ 2 = Real.sin (2 * theta) ^ 2 - (Real.sin (2 * theta) * Real.cos qaz) ^ 2 := by
          linear_combination (Real.sin (2 * theta) ^ 2) * h3
        rw [a1, ← e2]
        have a2 : (Real.cos delta * Real.sin nu) ^ 2 = Real.cos delta ^ 2 - Real.cos (2 * theta) ^ 2 := by
          rw [← e3]; linear_combination (Real.cos delta ^ 2) * h4
        rw [a2]; linear_combination h1 - h2
      have := eq_of_sq_eq_of_sign _ _ _ _ hsd hone hsq hs2 hsqs (by rw [hsone, mul_one]; exact hsgn)
      linear_combination this
    · cases hsome

/-- the detector layer for every detector constraint: generic side conditions -/
def DetGeneric (d : DetCon ℝ) (theta : ℝ) : Prop :=
  match d with
  | .qaz _ => True
  | .delta delta => Scalar.isSmall (Real.cos delta) = false ∧ Scalar.isSmall (Real.sin (2 * theta)) = false ∧
      |Real.sin delta / Real.sin (2 * theta)| ≤ 1 ∧ |Real.cos (2 * theta) / Real.cos delta| ≤ 1 ∧
      Scalar.isSmall (Real.cos (Real.arcsin (Real.sin delta / Real.sin (2 * theta)))) = false ∧
      Scalar.isSmall (Real.arccos (Real.cos (2 * theta) / Real.cos delta)) = false
  | .nu nu => Scalar.isSmall (Real.sin (2 * theta)) = false ∧ |Real.cos (2 * theta) / Real.cos nu| ≤ 1 ∧
      |Real.cos (2 * theta) / Real.cos nu * Real.sin nu / Real.sin (2 * theta)| ≤ 1 ∧
      Scalar.isSmall (Real.arccos (Real.cos (2 * theta) / Real.cos nu)) = false ∧
      Scalar.isSmall (Real.arccos (Real.cos (2 * theta) / Real.cos nu * Real.sin nu / Real.sin (2 * theta))) = false

/-- **the detector layer is exact for each of the three detector constraints** (`_calc_remaining_detector_angles`) -/
theorem detRemaining_sound (d : DetCon ℝ) (theta : ℝ) (hgen : DetGeneric d theta) :
    AllOk (fun t : ℝ × ℝ × ℝ => Scalar.isSmall (Real.cos t.1) = false → Scalar.isSmall (Real.sin t.1) = false →
        Scalar.isSmall (Real.sin t.2.1) = false → Scalar.isSmall (Real.sin t.2.2) = false → DetSpec t.1 t.2.1 t.2.2 theta)
      (detRemaining d theta) := by
  cases d with
  | qaz v =>
    apply allOk_ok
    intro t ht h1 _ _ _
    exact detFromQaz_sound v theta t ht h1
  | delta v =>
    obtain ⟨a, b, c, d', e, f⟩ := hgen
    exact allOk_mono (detFromDelta_sound v theta a b c d' e f) (fun t ht _ _ h3 _ => ht h3)
  | nu v =>
    obtain ⟨a, b, c, d', e⟩ := hgen
    exact allOk_mono (detFromNu_sound v theta a b c d' e) (fun t ht _ h2 _ h4 => ht h2 h4)

end
end C01
