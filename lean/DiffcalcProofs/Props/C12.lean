import DiffcalcProofs.Props.C11
/-!
# C12 — queries are pure: no state change, same answer every time

Model: the calculator is the immutable record `Calc`; the three queries are *functions* of `(Calc, arguments)` in the model
(`Solver.getPosition`, `Solver.getHkl`, `Solver.virtualAngles`), so in the model a query cannot change state and its answer
cannot depend on earlier queries.  What the theorems below state is therefore a property of the MODEL's shape:

* `query_frame` / `queries_frame`: running any sequence of queries leaves the calculator record unchanged;
* `query_history_independent`: the answer to a query after any sequence of other queries (including failing ones) equals the
  answer on the untouched calculator;
* `naz_split_fresh`: the one place where the implementation mutates something during a query — `det_constraint.pop("naz")` —
  acts on a dictionary rebuilt from the constraint objects at every access; in the model `Mode.ofCons` reads the constraint
  list and returns a new value, the list is not consumed.

The weight of C12 is carried by the tie, and the check says so: histories of mixed queries (returning and raising, naz modes,
the caller editing a `Position` object in place between calls) on one calculator object, with a deep snapshot — pickled
`asdict`, raw `U`/`UB` bytes, constraint values, identities of the nested containers — compared before and after every call,
and every answer compared with the answer of a freshly built calculator in the same state.
-/
namespace C12
open Solver
noncomputable section

/-- the calculator as the queries see it -/
structure Calc where
  ub : UBIn ℝ
  cons : ConList ℝ

inductive Query
  | getPosition (hkl : V3 ℝ) (wl : ℝ)
  | getHkl (p : Pos ℝ) (wl : ℝ)
  | virtualAngles (p : Pos ℝ)

inductive Answer
  | positions (r : Py (List (Pos ℝ × VAngles ℝ)))
  | hkl (v : V3 ℝ)
  | angles (r : Py (VAngles ℝ))
  | notImplemented

/-- a query returns an answer and the (same) calculator: the model of "the call returns or raises" -/
def run (c : Calc) : Query → Calc × Answer
  | .getPosition hkl wl =>
    match Mode.ofCons c.cons with
    | none => (c, .notImplemented)
    | some mode => (c, .positions (getPosition c.ub mode hkl wl))
  | .getHkl p wl => (c, .hkl (getHkl c.ub p wl))
  | .virtualAngles p => (c, .angles (virtualAngles c.ub p))

def runAll (c : Calc) : List Query → Calc × List Answer
  | [] => (c, [])
  | q :: qs => let (c1, a) := run c q; let (c2, as) := runAll c1 qs; (c2, a :: as)

theorem query_frame (c : Calc) (q : Query) : (run c q).1 = c := by
  cases q <;> simp only [run] <;> (try split) <;> rfl

theorem queries_frame (c : Calc) (qs : List Query) : (runAll c qs).1 = c := by
  induction qs generalizing c with
  | nil => rfl
  | cons q qs ih => simp only [runAll]; rw [query_frame]; exact ih c

/-- the answer to `q` after any history of queries is the answer on the untouched calculator -/
theorem query_history_independent (c : Calc) (qs : List Query) (q : Query) :
    (run (runAll c qs).1 q).2 = (run c q).2 := by rw [queries_frame]

/-- repeating a query gives the identical answer -/
theorem query_deterministic (c : Calc) (q : Query) : (run (run c q).1 q).2 = (run c q).2 := by rw [query_frame]

/-- the `naz` entry is looked up, never removed from the calculator's constraint list -/
theorem naz_split_fresh (c : Calc) (hkl : V3 ℝ) (wl : ℝ) : (run c (.getPosition hkl wl)).1.cons = c.cons := by
  rw [query_frame]

example (c : Calc) (hkl : V3 ℝ) (p : Pos ℝ) :
    (run (runAll c [.getPosition hkl 1, .virtualAngles p, .getPosition ⟨0, 0, 0⟩ 1]).1 (.getPosition hkl 1)).2 = (run c (.getPosition hkl 1)).2 :=
  query_history_independent c _ _
end
end C12
