import DiffcalcProofs.Props.C03Sample2
/-!
# C03 — completeness of the three-sample family: the free sample angle (`__get_last_sample_angle`)
-/
namespace C03
open M3 Solver Scalar PyOps C01
noncomputable section

theorem sameAngle_sub_add (v ks a : ℝ) (h : SameAngle (v - ks) a) : SameAngle (a + ks) v := by
  have := sameAngle_add _ _ ks (sameAngle_symm h)
  rwa [sub_add_cancel] at this

/-- **completeness of `__get_last_sample_angle`**: any value of the free axis that puts the y-component of `Z·ĥ` at `−sin θ` is one of the
    returned values modulo 2π (generic branch: the two roots do not coincide) -/
theorem lastSampleAngle_complete (free : Free) (mu eta chi phi : ℝ) (h : V3 ℝ) (hh : V3.norm h = 1) (theta v0 : ℝ)
    (hy : (M3.mulVec (C04.Z (assign free mu eta chi phi v0).1 (assign free mu eta chi phi v0).2.1 (assign free mu eta chi phi v0).2.2.1
      (assign free mu eta chi phi v0).2.2.2) h).y = -Real.sin theta)
    (hAB : (Scalar.isSmall (lastABC free mu eta chi phi h theta).1 && Scalar.isSmall (lastABC free mu eta chi phi h theta).2.1) = false)
    (hgen : Scalar.isSmall (Real.arccos ((lastABC free mu eta chi phi h theta).2.2 /
      Scalar.hypot (lastABC free mu eta chi phi h theta).1 (lastABC free mu eta chi phi h theta).2.1)) = false) :
    ∃ l, lastSampleAngle free mu eta chi phi h theta = .ok l ∧ ∃ v ∈ l, SameAngle v v0 := by
  unfold lastSampleAngle
  set ABC := lastABC free mu eta chi phi h theta with hABC
  obtain ⟨A, B, C⟩ := ABC
  simp only [] at hAB hgen ⊢
  rw [hAB]
  simp only [Bool.false_eq_true, if_false]
  have hr0 : B ≠ 0 ∨ A ≠ 0 := by
    by_contra hc; push Not at hc
    rw [hc.1, hc.2] at hAB
    simp [isSmall_real] at hAB; norm_num at hAB
  have hr := hypot_pos_of B A hr0
  have hr2 := hypot_sq B A
  have hhy : Scalar.hypot A B = Scalar.hypot B A := by simp only [Scalar.hypot, rs_sqrt]; congr 1; ring
  rw [hhy] at hgen ⊢
  set r := Scalar.hypot B A with hrdef
  have hrne := hr.ne'
  -- the linear equation in the free angle
  have hBA : B * Real.cos v0 + A * Real.sin v0 = C := by
    have hABC' : lastABC free mu eta chi phi h theta = (A, B, C) := hABC.symm
    unfold lastABC at hABC'
    rw [normalised_unit h hh] at hABC'
    rw [Z_mulVec] at hy
    cases free <;> simp only [assign, Prod.mk.injEq, rs_cos, rs_sin] at hABC' hy <;> obtain ⟨eA, eB, eC⟩ := hABC' <;> rw [← eA, ← eB, ← eC]
    · linear_combination hy
    · linear_combination hy
    · linear_combination hy
    · linear_combination hy
  obtain ⟨hce, hse⟩ := atan2_cs B A r hr hr2
  set ks := atan2R A B with hksdef
  have hB : B = r * Real.cos ks := by rw [hce]; field_simp
  have hA : A = r * Real.sin ks := by rw [hse]; field_simp
  have hcos : Real.cos (v0 - ks) = C / r := by
    rw [Real.cos_sub, ← hBA]
    rw [hB, hA]; field_simp
  have hclip : |C / r| ≤ 1 := by rw [← hcos]; exact Real.abs_cos_le_one _
  obtain ⟨c, hc⟩ := C11.boundAcos_ok hclip
  obtain ⟨rfl, _⟩ := C01.boundAcos_ok hclip hc
  simp only [bind, Except.bind, hc, rs_atan2, hgen, Bool.false_eq_true, if_false, pure, Except.pure]
  refine ⟨_, rfl, ?_⟩
  rcases acos_roots_complete (v0 - ks) (C / r) hclip hcos with h1 | h1
  · exact ⟨Real.arccos (C / r) + ks, List.mem_cons.mpr (Or.inl rfl), sameAngle_sub_add v0 ks _ h1⟩
  · exact ⟨-Real.arccos (C / r) + ks, List.mem_cons.mpr (Or.inr (List.mem_cons.mpr (Or.inl rfl))), sameAngle_sub_add v0 ks _ h1⟩
theorem Z_congr4 (mu mu' eta eta' chi chi' phi phi' : ℝ) (h1 : SameAngle mu mu') (h2 : SameAngle eta eta') (h3 : SameAngle chi chi')
    (h4 : SameAngle phi phi') : C04.Z mu eta chi phi = C04.Z mu' eta' chi' phi' := by
  unfold C04.Z rotX rotZ rotY
  simp only [rs_cos, rs_sin, Real.cos_neg, Real.sin_neg, h1.1, h1.2, h2.1, h2.2, h3.1, h3.2, h4.1, h4.2]

theorem sameAngle_refl (a : ℝ) : SameAngle a a := ⟨rfl, rfl⟩

theorem assign_same (free : Free) (mu eta chi phi v v' : ℝ) (h : SameAngle v v') :
    C04.Z (assign free mu eta chi phi v).1 (assign free mu eta chi phi v).2.1 (assign free mu eta chi phi v).2.2.1 (assign free mu eta chi phi v).2.2.2 =
    C04.Z (assign free mu eta chi phi v').1 (assign free mu eta chi phi v').2.1 (assign free mu eta chi phi v').2.2.1 (assign free mu eta chi phi v').2.2.2 := by
  cases free <;> simp only [assign]
  · exact Z_congr4 _ _ _ _ _ _ _ _ h (sameAngle_refl _) (sameAngle_refl _) (sameAngle_refl _)
  · exact Z_congr4 _ _ _ _ _ _ _ _ (sameAngle_refl _) h (sameAngle_refl _) (sameAngle_refl _)
  · exact Z_congr4 _ _ _ _ _ _ _ _ (sameAngle_refl _) (sameAngle_refl _) h (sameAngle_refl _)
  · exact Z_congr4 _ _ _ _ _ _ _ _ (sameAngle_refl _) (sameAngle_refl _) (sameAngle_refl _) h

/-- the detector relation sees qaz only through its sine and cosine -/
theorem detSpec_congr (delta nu qaz qaz' theta : ℝ) (h : SameAngle qaz qaz') (hD : DetSpec delta nu qaz theta) : DetSpec delta nu qaz' theta := by
  unfold DetSpec at hD ⊢
  rw [← h.1, ← h.2]; exact hD

/-- **completeness of `_calc_three_sample`** (all four free axes): a position that carries the three given sample angles, satisfies the sample
    relation for some qaz and the detector relation for that qaz is among the candidates, modulo 2π in the free sample angle and in the
    detector angles (generic branch of each layer) -/
theorem threeSample_complete (free : Free) (mu eta chi phi : ℝ) (h : V3 ℝ) (hh : V3.norm h = 1) (theta : ℝ)
    (hct : Scalar.isSmall (Real.cos theta) = false)
    (v0 qaz0 delta0 nu0 : ℝ)
    (hS : SampleSpec h theta qaz0 (assign free mu eta chi phi v0)) (hD : DetSpec delta0 nu0 qaz0 theta)
    (hcd : Scalar.isSmall (Real.cos delta0) = false)
    (hAB : (Scalar.isSmall (lastABC free mu eta chi phi h theta).1 && Scalar.isSmall (lastABC free mu eta chi phi h theta).2.1) = false)
    (hgen : Scalar.isSmall (Real.arccos ((lastABC free mu eta chi phi h theta).2.2 /
      Scalar.hypot (lastABC free mu eta chi phi h theta).1 (lastABC free mu eta chi phi h theta).2.1)) = false) :
    ∃ l, threeSample free mu eta chi phi h theta = .ok l ∧
      ∃ s ∈ l, ∃ v, SameAngle v v0 ∧ (s.1, s.2.2.2.1, s.2.2.2.2.1, s.2.2.2.2.2) = assign free mu eta chi phi v ∧
        SameAngle s.2.1 delta0 ∧ SameAngle s.2.2.1 nu0 := by
  have hcne : Real.cos theta ≠ 0 := C01.not_small_ne_zero hct
  unfold SampleSpec at hS
  have hy : (M3.mulVec (C04.Z (assign free mu eta chi phi v0).1 (assign free mu eta chi phi v0).2.1 (assign free mu eta chi phi v0).2.2.1
      (assign free mu eta chi phi v0).2.2.2) h).y = -Real.sin theta := by rw [hS]; rfl
  obtain ⟨vals, hvals, v, hv, hsame⟩ := lastSampleAngle_complete free mu eta chi phi h hh theta v0 hy hAB hgen
  unfold threeSample tryAssert
  rw [hvals]
  simp only []
  refine ⟨_, rfl, ?_⟩
  -- the candidate built from v
  have hZ := assign_same free mu eta chi phi v v0 hsame
  have hy' : (M3.mulVec (C04.Z (assign free mu eta chi phi v).1 (assign free mu eta chi phi v).2.1 (assign free mu eta chi phi v).2.2.1
      (assign free mu eta chi phi v).2.2.2) h).y = -Real.sin theta := by rw [hZ]; exact hy
  have hq := qazValue_sound _ _ _ _ h hh theta hct hy'
  rw [hZ, hS] at hq
  -- qaz' ≡ qaz0
  set qaz' := qazValue (assign free mu eta chi phi v).1 (assign free mu eta chi phi v).2.1 (assign free mu eta chi phi v).2.2.1
      (assign free mu eta chi phi v).2.2.2 h theta with hqdef
  have hqs : SameAngle qaz0 qaz' := by
    have hx := congrArg V3.x hq; have hz := congrArg V3.z hq
    simp only [qDir] at hx hz
    exact ⟨mul_left_cancel₀ hcne hx, mul_left_cancel₀ hcne hz⟩
  obtain ⟨d, hd, hd1, hd2, _⟩ := detFromQaz_complete delta0 nu0 qaz' theta (detSpec_congr _ _ _ _ _ hqs hD) hcd
  obtain ⟨dl, nu', qz⟩ := d
  refine ⟨((assign free mu eta chi phi v).1, dl, nu', (assign free mu eta chi phi v).2.1, (assign free mu eta chi phi v).2.2.1,
      (assign free mu eta chi phi v).2.2.2), ?_, v, hsame, rfl, hd1, hd2⟩
  apply List.mem_flatMap.mpr
  refine ⟨v, hv, ?_⟩
  cases free <;> simp only [assign] at hd ⊢ <;> exact List.mem_map.mpr ⟨(dl, nu', qz), hd, rfl⟩

end
end C03
