import DiffcalcProofs.Props.C03Reference
import DiffcalcProofs.Props.C01Assembly2
/-!
# C03 — completeness assembled end to end: reference constraint + two sample angles (42 mode shapes)

`refSamp2_complete`: a position `P` whose forward model is the requested `hkl` and which satisfies the orientation equation of the reference
modes, `Z · N_phi · PSI(ψ₀)ᵀ · THETAᵀ = F(qaz)`, for a value `ψ₀` that the reference layer derives from the constraint, and which carries the
mode's two sample values, is among the candidates of `__calc_hkl_to_position`, every angle modulo 2π.  For a `psi` constraint `ψ₀` is the
constrained value itself (`refSamp2_psi_complete`, six mode shapes, no further assumption on the reference layer than that it accepts the
request); for the other six reference constraints "ψ₀ is among the values `__calc_psi` yields" is the hypothesis that a completeness
statement of the reference layer would discharge.
-/
namespace C03
open M3 Solver Scalar PyOps C01
noncomputable section

/-- the psi values the solver tries for a reference constraint -/
def psiList (ref : RefCon ℝ) (alpha theta tau : ℝ) : List (Option ℝ) :=
  match ref with
  | .psi v => [some v]
  | _ => calcPsi alpha theta tau none

theorem qDir_inj (theta q q' : ℝ) (hc : Real.cos theta ≠ 0) (h : qDir theta q = qDir theta q') : SameAngle q q' := by
  have hx := congrArg V3.x h; have hz := congrArg V3.z h
  simp only [qDir] at hx hz
  exact ⟨mul_left_cancel₀ hc hx, mul_left_cancel₀ hc hz⟩

theorem detSpec_congr_qaz {delta nu q q' theta : ℝ} (h : SameAngle q q') (hD : DetSpec delta nu q theta) : DetSpec delta nu q' theta :=
  detSpec_congr _ _ _ _ _ h hD

/-- the candidates `_calc_two_sample_and_reference` builds from the sample-layer tuples -/
def candFor (rs : List (RTuple ℝ)) (theta : ℝ) : List (Sol ℝ) :=
  rs.flatMap fun r => (detFromQaz r.1 theta).map fun x => (r.2.2.1, x.1, x.2.1, r.2.2.2.1, r.2.2.2.2.1, r.2.2.2.2.2)

theorem twoSampleAndReference_eq (s : Samp2Ref ℝ) (h n : V3 ℝ) (theta psi : ℝ) (N : M3 ℝ) (rs : List (RTuple ℝ))
    (hN : calcN h n = .ok N) (hrs : twoSampleReference s psi theta N = .ok rs) :
    twoSampleAndReference s h n theta psi = .ok (candFor rs theta) := by
  unfold twoSampleAndReference candFor
  simp only [bind, Except.bind, hN, hrs, pure, Except.pure]

/-- the body of the loop over the psi values in `__calc_hkl_to_position` -/
def psiBody (s : Samp2Ref ℝ) (h n : V3 ℝ) (theta : ℝ) : Option ℝ → Py (List (Sol ℝ))
  | some p => twoSampleAndReference s h n theta p
  | none => .ok []

theorem refSamp2_complete (ub : UBIn ℝ) (U : M3 ℝ) (hU : IsRot U) (hUB : ub.UB = M3.mul U ub.B) (hB : M3.det ub.B ≠ 0)
    (ref : RefCon ℝ) (s : Samp2Ref ℝ) (hkl : V3 ℝ) (wl : ℝ) (hwl : 0 < wl)
    (hne : 0 < V3.norm (M3.mulVec ub.B hkl))
    (mu delta nu eta chi phi : ℝ)
    (hf : C04.fwd ub.UB mu delta nu eta chi phi wl = hkl)
    (hs : |Real.cos delta * Real.cos nu| < 1)
    (hcd : Scalar.isSmall (Real.cos delta) = false)
    (n : V3 ℝ) (alpha tau : ℝ)
    (hnat : nphiAlphaTau ub ref (M3.mulVec ub.UB hkl) (thetaOf delta nu) = .ok (n, alpha, tau))
    (hn : 0 < V3.norm n) (hx : (1e-7 : ℝ) < V3.norm (V3.cross (V3.unit (M3.mulVec ub.UB hkl)) (V3.unit n)))
    (psi0 q0 : ℝ) (hpsi : some psi0 ∈ psiList ref alpha (thetaOf delta nu) tau)
    (hS : ∀ N, calcN (M3.mulVec ub.UB hkl) n = .ok N → RefSpec (Vref psi0 (thetaOf delta nu) N) (q0, psi0, mu, eta, chi, phi))
    (hc : CarriesRef s mu eta chi phi)
    (hr : ∀ N, calcN (M3.mulVec ub.UB hkl) n = .ok N → Samp2RefRegular s psi0 (thetaOf delta nu) N q0 mu eta chi phi)
    (hsib : ∀ p, some p ∈ psiList ref alpha (thetaOf delta nu) tau → ∃ l, twoSampleAndReference s (M3.mulVec ub.UB hkl) n (thetaOf delta nu) p = .ok l) :
    ∃ l, candidates ub (.refSamp2 ref s) hkl wl = .ok l ∧ ∃ sol ∈ l, SamePosition sol mu delta nu eta chi phi := by
  have hpi := Real.pi_pos
  have hnUB : V3.norm (M3.mulVec ub.UB hkl) = V3.norm (M3.mulVec ub.B hkl) := by rw [hUB]; exact norm_UB U ub.B hU hkl
  have hnUBpos : 0 < V3.norm (M3.mulVec ub.UB hkl) := by rw [hnUB]; exact hne
  have hdetUB : M3.det ub.UB ≠ 0 := by rw [hUB, M3.det_mul, hU.2, one_mul]; exact hB
  obtain ⟨hD, hlo, hhi⟩ := detSpec_of_position delta nu hs
  have hbragg := bragg_of_fwd ub.UB hdetUB mu delta nu eta chi phi wl hwl hkl hf hs
  rw [hnUB] at hbragg
  have hreach : wl * V3.norm (M3.mulVec ub.B hkl) / (4 * Real.pi) ≤ 1 := by rw [hbragg]; exact Real.sin_le_one _
  have hth : Real.arcsin (wl * V3.norm (M3.mulVec ub.B hkl) / (4 * Real.pi)) = thetaOf delta nu := by
    rw [hbragg]; exact Real.arcsin_sin (by linarith) (by linarith)
  have hct : Real.cos (thetaOf delta nu) ≠ 0 := ne_of_gt (Real.cos_pos_of_mem_Ioo ⟨by linarith, hhi⟩)
  obtain ⟨N, hN⟩ := C11.calcN_total (M3.mulVec ub.UB hkl) n
  obtain ⟨hNrot, hNcol⟩ := calcN_generic _ _ N hnUBpos hn hx hN
  -- the sample relation of P from its forward model, and from the orientation equation: the two azimuths agree
  have hZ := decomposition ub.UB hdetUB mu delta nu eta chi phi wl hkl hf
  rw [qLab_of_DetSpec delta nu _ _ wl hD] at hZ
  have hS0 : SampleSpec ⟨N.a00, N.a10, N.a20⟩ (thetaOf delta nu) (qazOf delta nu) (mu, eta, chi, phi) := by
    unfold SampleSpec
    simp only []
    rw [hNcol, V3.unit_eq_smul _ hnUBpos, M3.mulVec_smul, hZ, hnUB]
    have hnorm : V3.norm (M3.mulVec ub.B hkl) = 2 * (2 * Real.pi / wl) * Real.sin (thetaOf delta nu) := by
      rw [← hbragg]; field_simp; ring
    rw [hnorm]
    have hsp : 0 < Real.sin (thetaOf delta nu) := Real.sin_pos_of_pos_of_lt_pi hlo (by linarith)
    ext <;> simp only [V3.smul] <;> field_simp
  have hS1 := refSpec_sampleSpec psi0 (thetaOf delta nu) N _ (hS N hN)
  simp only [] at hS1
  have hq : SameAngle q0 (qazOf delta nu) := by
    apply qDir_inj (thetaOf delta nu) _ _ hct
    unfold SampleSpec at hS0 hS1
    rw [← hS0, ← hS1]
  -- the sample layer
  obtain ⟨rs, hrs, t, ht, tq, tpsi, tmu, teta, tchi, tphi⟩ :=
    twoSampleReference_complete s psi0 (thetaOf delta nu) N hNrot q0 mu eta chi phi (hS N hN) hc (hr N hN)
  -- the detector layer at the azimuth the sample layer hands on
  have hDt : DetSpec delta nu t.1 (thetaOf delta nu) :=
    detSpec_congr_qaz (sameAngle_symm tq) (detSpec_congr_qaz (sameAngle_symm hq) hD)
  obtain ⟨d, hd, hd1, hd2, _⟩ := detFromQaz_complete delta nu t.1 (thetaOf delta nu) hDt hcd
  -- the candidate list for psi0
  have hok0 := twoSampleAndReference_eq s (M3.mulVec ub.UB hkl) n (thetaOf delta nu) psi0 N rs hN hrs
  unfold candidates
  rw [ttheta_eq ub.B hB hkl wl hwl hne hreach]
  simp only [bind, Except.bind, rs_two]
  have hhalf : 2 * Real.arcsin (wl * V3.norm (M3.mulVec ub.B hkl) / (4 * Real.pi)) / 2 = thetaOf delta nu := by rw [hth]; ring
  rw [hhalf, hnat]
  simp only []
  have hall : ∀ x ∈ psiList ref alpha (thetaOf delta nu) tau, ∃ ys,
      psiBody s (M3.mulVec ub.UB hkl) n (thetaOf delta nu) x = .ok ys := by
    intro x hxm
    cases x with
    | none => exact ⟨[], rfl⟩
    | some p => exact hsib p hxm
  obtain ⟨l, hl, hmem⟩ := forM'_ok_of_all (psiList ref alpha (thetaOf delta nu) tau)
    (psiBody s (M3.mulVec ub.UB hkl) n (thetaOf delta nu)) hall
  refine ⟨l, ?_, (t.2.2.1, d.1, d.2.1, t.2.2.2.1, t.2.2.2.2.1, t.2.2.2.2.2), ?_, tmu, hd1, hd2, teta, tchi, tphi⟩
  · rw [← hl]; unfold psiList
    cases ref <;> (congr 1; funext x; cases x <;> rfl)
  · apply hmem (some psi0) hpsi (candFor rs (thetaOf delta nu)) hok0
    unfold candFor
    apply List.mem_flatMap.mpr
    refine ⟨t, ht, ?_⟩
    exact List.mem_map.mpr ⟨d, hd, rfl⟩

/-- **psi + two sample angles: completeness end to end** (six mode shapes): the psi value tried is the constrained one -/
theorem refSamp2_psi_complete (ub : UBIn ℝ) (U : M3 ℝ) (hU : IsRot U) (hUB : ub.UB = M3.mul U ub.B) (hB : M3.det ub.B ≠ 0)
    (v : ℝ) (s : Samp2Ref ℝ) (hkl : V3 ℝ) (wl : ℝ) (hwl : 0 < wl)
    (hne : 0 < V3.norm (M3.mulVec ub.B hkl))
    (mu delta nu eta chi phi : ℝ)
    (hf : C04.fwd ub.UB mu delta nu eta chi phi wl = hkl)
    (hs : |Real.cos delta * Real.cos nu| < 1)
    (hcd : Scalar.isSmall (Real.cos delta) = false)
    (n : V3 ℝ) (alpha tau : ℝ)
    (hnat : nphiAlphaTau ub (.psi v) (M3.mulVec ub.UB hkl) (thetaOf delta nu) = .ok (n, alpha, tau))
    (hn : 0 < V3.norm n) (hx : (1e-7 : ℝ) < V3.norm (V3.cross (V3.unit (M3.mulVec ub.UB hkl)) (V3.unit n)))
    (q0 : ℝ)
    (hS : ∀ N, calcN (M3.mulVec ub.UB hkl) n = .ok N → RefSpec (Vref v (thetaOf delta nu) N) (q0, v, mu, eta, chi, phi))
    (hc : CarriesRef s mu eta chi phi)
    (hr : ∀ N, calcN (M3.mulVec ub.UB hkl) n = .ok N → Samp2RefRegular s v (thetaOf delta nu) N q0 mu eta chi phi) :
    ∃ l, candidates ub (.refSamp2 (.psi v) s) hkl wl = .ok l ∧ ∃ sol ∈ l, SamePosition sol mu delta nu eta chi phi := by
  apply refSamp2_complete ub U hU hUB hB (.psi v) s hkl wl hwl hne mu delta nu eta chi phi hf hs hcd n alpha tau hnat hn hx v q0
    (by simp [psiList]) hS hc hr
  intro p hp
  simp only [psiList, List.mem_singleton, Option.some.injEq] at hp
  subst hp
  -- the only psi tried is v: its candidate list exists because every layer succeeds on the solution
  obtain ⟨N, hN⟩ := C11.calcN_total (M3.mulVec ub.UB hkl) n
  have hnUBpos : 0 < V3.norm (M3.mulVec ub.UB hkl) := by
    rw [hUB, norm_UB U ub.B hU hkl]; exact hne
  obtain ⟨hNrot, _⟩ := calcN_generic _ _ N hnUBpos hn hx hN
  obtain ⟨rs, hrs, _⟩ := twoSampleReference_complete s p (thetaOf delta nu) N hNrot q0 mu eta chi phi (hS N hN) hc (hr N hN)
  exact ⟨_, twoSampleAndReference_eq s _ n _ p N rs hN hrs⟩

end
end C03
