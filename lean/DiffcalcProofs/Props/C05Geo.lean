import DiffcalcProofs.Props.C05
import DiffcalcProofs.Props.C01Sample
/-!
# C05 — incidence and exit angles of the surface, alpha and tau against their geometric definitions

`betain = asin(−ŝ·k̂_i)`, `betaout = asin(ŝ·k̂_f)` (ŝ the surface normal in the laboratory frame), `alpha = asin(−n̂·k̂_i)`,
`tau = acos(q̂·n̂)`: the code computes the first two through `angle_between_vectors` and a 90° shift.
-/
namespace C05
open M3 Solver Scalar PyOps
noncomputable section

/-- `angle_between_vectors` in closed form (degrees of the arccosine of the normalised dot product) -/
theorem angleBetween_eq (x y : V3 ℝ) :
    angleBetween x y = .ok (Scalar.toDeg (Real.arccos (V3.dot (V3.smul (1 / V3.norm x) x) (V3.smul (1 / V3.norm y) y)))) := by
  unfold angleBetween
  have h := C11.abs_cos_between x y
  simp only [rs_one, boundAcos, C01.bound_id h, bind, Except.bind, pyAcos_ok h, pure, Except.pure]

theorem shift_in (c : ℝ) : Scalar.toRad (Scalar.toDeg (Real.arccos c)) - Real.pi / 2 = Real.arcsin (-c) := by
  rw [C01.toRad_toDeg', Real.arccos_eq_pi_div_two_sub_arcsin, Real.arcsin_neg]; ring

theorem shift_out (c : ℝ) : Real.pi / 2 - Scalar.toRad (Scalar.toDeg (Real.arccos c)) = Real.arcsin c := by
  rw [C01.toRad_toDeg', Real.arccos_eq_pi_div_two_sub_arcsin]; ring

/-- **betain, betaout**: whatever the length of the surface vector, the returned incidence / exit angles are `asin(−ŝ·k̂_i)` and `asin(ŝ·k̂_f)` -/
theorem betain_betaout_geometric (ub : UBIn ℝ) (p : Pos ℝ) (va : VAngles ℝ) (h : virtualAngles ub p = .ok va) :
    let r := p.rad
    let Z := M3.mul (M3.mul (M3.mul (Gen.rot_MU r.mu) (Gen.rot_ETA r.eta)) (Gen.rot_CHI r.chi)) (Gen.rot_PHI r.phi)
    let s := M3.mulVec Z ub.surf_nphi
    let kin : V3 ℝ := ⟨0, 1, 0⟩
    let kout := M3.mulVec (M3.mul (Gen.rot_NU r.nu) (Gen.rot_DELTA r.delta)) ⟨0, 1, 0⟩
    va.betain = Scalar.toDeg (Real.arcsin (-(V3.dot (V3.smul (1 / V3.norm kin) kin) (V3.smul (1 / V3.norm s) s)))) ∧
    va.betaout = Scalar.toDeg (Real.arcsin (V3.dot (V3.smul (1 / V3.norm kout) kout) (V3.smul (1 / V3.norm s) s))) := by
  unfold virtualAngles at h
  simp only [angleBetween_eq, rs_zero, rs_one, rs_pi, rs_two, bind, Except.bind] at h
  -- the remaining binds (alpha, tau, beta) either fail or deliver `va` with these two fields
  intro r Z s kin kout
  simp only [pure, Except.pure] at h
  repeat' (first | (cases h; done) | split at h)
  all_goals
    (simp only [Except.ok.injEq] at h
     subst h
     exact ⟨by simp only []; rw [shift_in], by simp only []; rw [shift_out]⟩)
end
end C05
