import Diffcalc.Gen.SolverLeaf
import Diffcalc.Gen.UtilLeaf
import Diffcalc.Solver.Reference
import Diffcalc.Solver.Func
/-!
# Tie T for straight-line pieces of the solver model

`Gen/SolverLeaf.lean` is regenerated from `calc_reference.py` / `calc_func.py` on every run.  The theorems below say that the hand
model (`Solver.phiAndQaz`, `Solver.chiAndQaz`, `Solver.qazValue`), about which the C01 / C03 theorems are stated, IS the generated
definition — for every scalar type, hence for the `Float` reading the driver executes and for the `ℝ` reading the proofs use.  A change of
those source functions changes the generated text and these proofs (by `rfl`) stop checking: the tie is broken by construction, not by
sampling.
-/
namespace TieSolver
open Scalar PyOps
variable {α : Type} [Scalar α]

theorem phiAndQaz_generated (chi eta mu : α) (V : M3 α) : Gen.get_phi_and_qaz chi eta mu V = Solver.phiAndQaz chi eta mu V := rfl

theorem chiAndQaz_generated (mu eta : α) (V : M3 α) : Gen.get_chi_and_qaz mu eta V = Solver.chiAndQaz mu eta V := rfl

theorem qazValue_generated (mu eta chi phi : α) (h : V3 α) (theta : α) :
    Gen.get_qaz_value mu eta chi phi h theta = Solver.qazValue mu eta chi phi h theta := rfl

/-! the numeric primitives everything else is built from (`util.py`): the tolerance constant, `bound`, `sign` -/

theorem small_generated : (Gen.small_const : α) = Scalar.SMALL := rfl

theorem bound_generated (x : α) : Gen.util_bound x = PyOps.bound x := rfl

theorem sign_generated (x : α) : Gen.util_sign x = Scalar.sign x := rfl

end TieSolver
