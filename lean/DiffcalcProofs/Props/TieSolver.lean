import Diffcalc.Gen.SolverLeaf
import Diffcalc.Solver.Reference
import Diffcalc.Solver.Func
/-!
# Tie T for straight-line pieces of the solver model

`Gen/SolverLeaf.lean` is regenerated from `calc_reference.py` / `calc_func.py` on every run.  The theorems below say that the hand
model (`Solver.phiAndQaz`, `Solver.chiAndQaz`, `Solver.qazValue`), about which the C01 / C03 theorems are stated, IS the generated
definition — for every scalar type, hence for the `Float` reading the driver executes and for the `ℝ` reading the proofs use.  A change of
those source functions changes the generated text and these proofs (by `rfl`) stop checking: the tie is broken by construction, not by
sampling.
-/
namespace TieSolver
open Scalar PyOps
variable {α : Type} [Scalar α]

theorem phiAndQaz_generated (chi eta mu : α) (V : M3 α) : Gen.get_phi_and_qaz chi eta mu V = Solver.phiAndQaz chi eta mu V := rfl

theorem chiAndQaz_generated (mu eta : α) (V : M3 α) : Gen.get_chi_and_qaz mu eta V = Solver.chiAndQaz mu eta V := rfl

theorem qazValue_generated (mu eta chi phi : α) (h : V3 α) (theta : α) :
    Gen.get_qaz_value mu eta chi phi h theta = Solver.qazValue mu eta chi phi h theta := rfl

end TieSolver
