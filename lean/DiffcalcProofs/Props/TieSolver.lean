import Diffcalc.Gen.SolverLeaf
import Diffcalc.Gen.SolverDispatch
import Diffcalc.Gen.UtilLeaf
import Diffcalc.Solver.Reference
import Diffcalc.Solver.Func
import Diffcalc.Solver.Sample
import Diffcalc.Solver.Detector
/-!
# Tie T for straight-line pieces of the solver model

`Gen/SolverLeaf.lean` is regenerated from `calc_reference.py` / `calc_func.py` on every run.  The theorems below say that the hand
model (`Solver.phiAndQaz`, `Solver.chiAndQaz`, `Solver.qazValue`), about which the C01 / C03 theorems are stated, IS the generated
definition — for every scalar type, hence for the `Float` reading the driver executes and for the `ℝ` reading the proofs use.  A change of
those source functions changes the generated text and these proofs (by `rfl`) stop checking: the tie is broken by construction, not by
sampling.
-/
namespace TieSolver
open Scalar PyOps Solver
variable {α : Type} [Scalar α]

theorem phiAndQaz_generated (chi eta mu : α) (V : M3 α) : Gen.get_phi_and_qaz chi eta mu V = Solver.phiAndQaz chi eta mu V := rfl

theorem chiAndQaz_generated (mu eta : α) (V : M3 α) : Gen.get_chi_and_qaz mu eta V = Solver.chiAndQaz mu eta V := rfl

theorem qazValue_generated (mu eta chi phi : α) (h : V3 α) (theta : α) :
    Gen.get_qaz_value mu eta chi phi h theta = Solver.qazValue mu eta chi phi h theta := rfl

theorem sampleFromChiEta_generated (chi eta : α) (Z : M3 α) : Gen.calc_sample_from_chi_eta chi eta Z = Solver.sampleFromChiEta chi eta Z := rfl

theorem detFromQaz_generated (qaz theta : α) : Gen.calc_remaining_detector_angles_qaz qaz theta = Solver.detFromQaz qaz theta := rfl

/-! four of the six reference + two-sample branches (`calc_reference.py`), whole bodies: matrix products, guards, `try … except AssertionError`,
the candidate lists and the loops -/

theorem refConChiMu_generated (chi mu psi theta : α) (N : M3 α) :
    Gen.calc_sample_ref_con_chi_mu chi mu psi theta N = Solver.refConChiMu chi mu psi theta N := rfl

theorem refConMuPhi_generated (mu phi psi theta : α) (N : M3 α) :
    Gen.calc_sample_ref_con_mu_phi mu phi psi theta N = Solver.refConMuPhi mu phi psi theta N := rfl

theorem refConEtaPhi_generated (eta phi psi theta : α) (N : M3 α) :
    Gen.calc_sample_ref_con_eta_phi eta phi psi theta N = Solver.refConEtaPhi eta phi psi theta N := rfl

theorem refConChiPhi_generated (chi phi psi theta : α) (N : M3 α) :
    Gen.calc_sample_ref_con_chi_phi chi phi psi theta N = Solver.refConChiPhi chi phi psi theta N := rfl

/-! the single-sample branches that do not need `catchAssert` and three of the detector + two-sample branches (`calc_sample.py`), whole bodies -/

theorem sampleConPhi_generated (phi : α) (Nl N : M3 α) : Gen.calc_sample_con_phi phi Nl N = Solver.sampleConPhi phi Nl N := rfl

theorem sampleConChi_generated (chi : α) (Nl N : M3 α) : Gen.calc_sample_con_chi chi Nl N = Solver.sampleConChi chi Nl N := rfl

theorem sampleConEta_generated (eta : α) (Nl N : M3 α) : Gen.calc_sample_con_eta eta Nl N = Solver.sampleConEta eta Nl N := rfl

theorem sampleConMuChi_generated (mu chi qaz theta : α) (N : M3 α) :
    Gen.calc_sample_con_mu_chi mu chi qaz theta N = Solver.sampleConMuChi mu chi qaz theta N := rfl

theorem sampleConEtaPhi_generated (eta phi qaz theta : α) (N : M3 α) :
    Gen.calc_sample_con_eta_phi eta phi qaz theta N = Solver.sampleConEtaPhi eta phi qaz theta N := rfl

theorem sampleConEtaChi_generated (eta chi qaz theta : α) (N : M3 α) :
    Gen.calc_sample_con_eta_chi eta chi qaz theta N = Solver.sampleConEtaChi eta chi qaz theta N := rfl

theorem sampleConMuPhi_generated (mu phi qaz theta : α) (N : M3 α) :
    Gen.calc_sample_con_mu_phi mu phi qaz theta N = Solver.sampleConMuPhi mu phi qaz theta N := rfl

theorem sampleConMuEta_generated (mu eta qaz theta : α) (N : M3 α) :
    Gen.calc_sample_con_mu_eta mu eta qaz theta N = Solver.sampleConMuEta mu eta qaz theta N := rfl

/-! the two detector branches with a sign filter over a product of candidate lists (`calc_detector.py`) -/

theorem detFromDelta_generated (delta theta : α) : Gen.calc_remaining_detector_angles_delta delta theta = Solver.detFromDelta delta theta := rfl

theorem detFromNu_generated (nu theta : α) : Gen.calc_remaining_detector_angles_nu nu theta = Solver.detFromNu nu theta := rfl

/-- `__calc_sample_con_mu`: the translator's `tryAssert … fun v => …` against the hand model's `catchAssert do …` (not the same term: by cases on
the guarded `acos` and on the degenerate-chi test) -/
theorem sampleConMu_generated (mu : α) (Nl N : M3 α) : Gen.calc_sample_con_mu mu Nl N = Solver.sampleConMu mu Nl N := by
  unfold Gen.calc_sample_con_mu Solver.sampleConMu Solver.tryAssert Solver.catchAssert
  dsimp only
  generalize Solver.boundAcos (M3.mul (M3.mul (M3.inv (Gen.rot_MU mu)) Nl) (M3.transpose N)).a22 = r
  cases r with
  | error e => cases e <;> rfl
  | ok v =>
    dsimp only [bind, Except.bind]
    by_cases hs : isSmall (sin v) = true
    · simp only [hs, if_true]; rfl
    · simp only [hs]; rfl

/-! the three branches with a square root inside the guarded expression: `math.sqrt` first (`pySqrt`), then `bound`; in the two reference
branches the guarded value is kept and each branch of the if / else applies its own inverse function once -/

theorem refConMuEta_generated (mu eta psi theta : α) (N : M3 α) :
    Gen.calc_sample_ref_con_mu_eta mu eta psi theta N = Solver.refConMuEta mu eta psi theta N := rfl

theorem refConChiEta_generated (chi eta psi theta : α) (N : M3 α) :
    Gen.calc_sample_ref_con_chi_eta chi eta psi theta N = Solver.refConChiEta chi eta psi theta N := rfl

theorem sampleConChiPhi_generated (chi phi qaz theta : α) (N : M3 α) :
    Gen.calc_sample_con_chi_phi chi phi qaz theta N = Solver.sampleConChiPhi chi phi qaz theta N := rfl

theorem sampleConOmegaBisect_generated (omega qaz theta : α) (N : M3 α) :
    Gen.calc_sample_con_omega_bisect omega qaz theta N = Solver.sampleConOmegaBisect omega qaz theta N := rfl

/-! the two bisect branches whose candidate lists are built by `extend` in a loop (-> `flatMap`) after an if-tree with early `return`s: the
translator keeps the product with the one-element list of the constrained axis, the hand model had simplified it away — equal by the two `forM'`
lemmas below, not by `rfl` -/

theorem forM'_map {β γ δ : Type} (A : List β) (h : β → γ) (g : γ → Py (List δ)) :
    forM' (A.map h) g = forM' A (fun x => g (h x)) := by
  induction A with
  | nil => rfl
  | cons a A ih => simp only [List.map_cons, forM', ih]

theorem forM'_flatMap_single {β γ δ : Type} (A : List β) (h : β → γ) (g : γ → Py (List δ)) :
    forM' (A.flatMap fun x => [h x]) g = forM' A (fun x => g (h x)) := by
  induction A with
  | nil => rfl
  | cons a A ih => simp only [List.flatMap_cons, List.singleton_append, forM', ih]

theorem sampleConEtaBisect_generated (eta qaz theta : α) (N : M3 α) :
    Gen.calc_sample_con_eta_bisect eta qaz theta N = Solver.sampleConEtaBisect eta qaz theta N := by
  unfold Gen.calc_sample_con_eta_bisect Solver.sampleConEtaBisect
  simp only [List.map_cons, List.map_nil, forM'_flatMap_single]
  rfl

theorem sampleConMuBisect_generated (mu qaz theta : α) (N : M3 α) :
    Gen.calc_sample_con_mu_bisect mu qaz theta N = Solver.sampleConMuBisect mu qaz theta N := by
  unfold Gen.calc_sample_con_mu_bisect Solver.sampleConMuBisect
  by_cases h1 : isSmall (cos qaz) = true
  · by_cases h2 : isSmall (tan mu) = true
    · simp only [h1, h2, if_true, List.flatMap_cons, List.flatMap_nil, List.append_nil, forM'_map]; rfl
    · simp only [h1, h2, if_true, Bool.false_eq_true, if_false, List.flatMap_cons, List.flatMap_nil, List.append_nil, forM'_map]
  · simp only [h1, Bool.false_eq_true, if_false, List.flatMap_cons, List.flatMap_nil, List.append_nil, forM'_map]; rfl

/-! the numeric primitives everything else is built from (`util.py`): the tolerance constant, `bound`, `sign` -/

theorem small_generated : (Gen.small_const : α) = Scalar.SMALL := rfl

theorem bound_generated (x : α) : Gen.util_bound x = PyOps.bound x := rfl

theorem sign_generated (x : α) : Gen.util_sign x = Scalar.sign x := rfl

theorem anglesEquivalent_generated (a b : α) : Gen.util_angles_equivalent a b = PyOps.anglesEquivalent a b := rfl

/-! the two dispatchers over the sample-constraint dictionary (`Gen/SolverDispatch.lean`): the order of the `if "a" in … and "b" in …` chain -/

/-- the constraint dictionary of each two-sample pattern, as `Constraints` hands it to the dispatcher (valueless `bisect` stored as `None`) -/
def detCons : Samp2Det α → ConList α
  | .muEta m e => [(.mu, some m), (.eta, some e)]
  | .omegaBisect o => [(.omega, some o), (.bisect, none)]
  | .muBisect m => [(.mu, some m), (.bisect, none)]
  | .etaBisect e => [(.eta, some e), (.bisect, none)]
  | .chiPhi c p => [(.chi, some c), (.phi, some p)]
  | .muPhi m p => [(.mu, some m), (.phi, some p)]
  | .muChi m c => [(.mu, some m), (.chi, some c)]
  | .etaPhi e p => [(.eta, some e), (.phi, some p)]
  | .etaChi e c => [(.eta, some e), (.chi, some c)]

def refCons : Samp2Ref α → ConList α
  | .chiPhi c p => [(.chi, some c), (.phi, some p)]
  | .muEta m e => [(.mu, some m), (.eta, some e)]
  | .chiEta c e => [(.chi, some c), (.eta, some e)]
  | .chiMu c m => [(.chi, some c), (.mu, some m)]
  | .muPhi m p => [(.mu, some m), (.phi, some p)]
  | .etaPhi e p => [(.eta, some e), (.phi, some p)]

theorem twoSampleDetector_generated (s : Samp2Det α) (qaz theta : α) (N : M3 α) :
    Gen.calc_sample_con_two_sample_and_detector (detCons s) qaz theta N = Solver.twoSampleDetector s qaz theta N := by
  cases s with
  | muBisect m => exact sampleConMuBisect_generated m qaz theta N
  | etaBisect e => exact sampleConEtaBisect_generated e qaz theta N
  | _ => rfl

theorem twoSampleReference_generated (s : Samp2Ref α) (psi theta : α) (N : M3 α) :
    Gen.calc_sample_con_two_sample_and_reference (refCons s) psi theta N = Solver.twoSampleReference s psi theta N := by
  cases s <;> rfl
end TieSolver
