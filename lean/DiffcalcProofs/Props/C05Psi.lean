import DiffcalcProofs.Props.C05Geo
/-!
# C05 — psi against its geometric definition

psi is the azimuth of the reference direction `n̂` about the scattering vector `q̂`, measured from the scattering plane:
with `ŝ = (k̂_i × k̂_f)/|k̂_i × k̂_f|` (normal of the scattering plane) and `ê = ŝ × q̂`,  `psi = atan2(−n̂·ŝ, −n̂·ê)`.
The code evaluates eqs (25)/(28) of You (1999) from alpha, theta, tau, qaz, naz.  `calcPsi_geometric` shows the two agree exactly
whenever qaz and naz are defined and the code's own thresholds are not hit.
-/
namespace C05
open M3 Solver Scalar PyOps
noncomputable section

/-- a unit vector in the laboratory frame written with its incidence angle and azimuth -/
def nOf (alpha naz : ℝ) : V3 ℝ := ⟨Real.cos alpha * Real.sin naz, -(Real.sin alpha), Real.cos alpha * Real.cos naz⟩
/-- the normal of the scattering plane, `(k̂_i × k̂_f)/|k̂_i × k̂_f|` (see `sHat_geometric`) -/
def sHat (qaz : ℝ) : V3 ℝ := ⟨Real.cos qaz, 0, -(Real.sin qaz)⟩
/-- the third axis `ŝ × q̂` -/
def eHat (theta qaz : ℝ) : V3 ℝ := V3.cross (sHat qaz) (C01.qDir theta qaz)
/-- the scattered beam direction with Bragg angle θ and azimuth qaz -/
def kfOf (theta qaz : ℝ) : V3 ℝ := ⟨Real.sin (2 * theta) * Real.sin qaz, Real.cos (2 * theta), Real.sin (2 * theta) * Real.cos qaz⟩

/-- `k̂_i × k̂_f = sin 2θ · ŝ` and `k̂_f − k̂_i = 2 sin θ · q̂`: ŝ and q̂ are the geometric objects they are named after -/
theorem sHat_geometric (theta qaz : ℝ) :
    V3.cross ⟨0, 1, 0⟩ (kfOf theta qaz) = V3.smul (Real.sin (2 * theta)) (sHat qaz) ∧
    V3.sub (kfOf theta qaz) ⟨0, 1, 0⟩ = V3.smul (2 * Real.sin theta) (C01.qDir theta qaz) := by
  have hs2 := Real.sin_two_mul theta
  have hc2 := Real.cos_two_mul theta
  have hsc := Real.sin_sq_add_cos_sq theta
  constructor
  · ext <;> simp only [V3.cross, kfOf, V3.smul, sHat] <;> ring
  · ext <;> simp only [V3.sub, kfOf, V3.smul, C01.qDir]
    · rw [hs2]; ring
    · rw [hc2]; linear_combination (2 : ℝ) * hsc
    · rw [hs2]; ring

/-- the three identities behind eqs (25)/(28) -/
theorem psi_identities (theta qaz alpha naz : ℝ) :
    Real.cos alpha * Real.sin (qaz - naz) = -(V3.dot (nOf alpha naz) (sHat qaz)) ∧
    V3.dot (C01.qDir theta qaz) (nOf alpha naz) * Real.sin theta - Real.sin alpha
      = Real.cos theta * -(V3.dot (nOf alpha naz) (eHat theta qaz)) ∧
    V3.dot (nOf alpha naz) (sHat qaz) ^ 2 + V3.dot (nOf alpha naz) (eHat theta qaz) ^ 2
      = 1 - V3.dot (C01.qDir theta qaz) (nOf alpha naz) ^ 2 := by
  have hsc := Real.sin_sq_add_cos_sq theta
  have hq := Real.sin_sq_add_cos_sq qaz
  have ha := Real.sin_sq_add_cos_sq alpha
  have hn := Real.sin_sq_add_cos_sq naz
  refine ⟨?_, ?_, ?_⟩
  · simp only [V3.dot, nOf, sHat, Real.sin_sub]; ring
  · simp only [V3.dot, nOf, eHat, sHat, C01.qDir, V3.cross]
    linear_combination (Real.sin alpha * Real.cos theta ^ 2) * hq + Real.sin alpha * hsc
  · simp only [V3.dot, nOf, eHat, sHat, C01.qDir, V3.cross]
    linear_combination (Real.cos alpha ^ 2 * Real.cos naz ^ 2 * Real.cos qaz ^ 2 + 2 * Real.cos alpha ^ 2 * Real.cos naz * Real.cos qaz * Real.sin naz * Real.sin qaz
        + Real.cos alpha ^ 2 * Real.sin naz ^ 2 * Real.sin qaz ^ 2 + Real.sin alpha ^ 2) * hsc
      + (Real.cos alpha ^ 2 * Real.cos naz ^ 2 + Real.cos alpha ^ 2 * Real.sin naz ^ 2
        - 2 * Real.cos alpha * Real.cos naz * Real.cos qaz * Real.cos theta * Real.sin alpha * Real.sin theta
        - 2 * Real.cos alpha * Real.cos theta * Real.sin alpha * Real.sin naz * Real.sin qaz * Real.sin theta
        + Real.cos qaz ^ 2 * Real.cos theta ^ 2 * Real.sin alpha ^ 2 + Real.cos theta ^ 2 * Real.sin alpha ^ 2 * Real.sin qaz ^ 2
        + Real.cos theta ^ 2 * Real.sin alpha ^ 2) * hq
      + ha + (Real.cos alpha ^ 2) * hn
/-- **psi, eqs (25)/(28), equals the geometric azimuth**: with `tau` the angle between `q̂` and `n̂`, away from the code's thresholds -/
theorem calcPsi_geometric (alpha theta tau qaz naz : ℝ)
    (hct : Real.cos tau = V3.dot (C01.qDir theta qaz) (nOf alpha naz)) (hst : 0 ≤ Real.sin tau)
    (h1 : Scalar.isSmall (Real.sin tau) = false) (h2 : Scalar.isSmall (Real.cos theta) = false) (h3 : Scalar.isSmall (Real.sin theta) = false) :
    calcPsi alpha theta tau (some (qaz, some naz)) =
      [some (atan2R (-(V3.dot (nOf alpha naz) (sHat qaz))) (-(V3.dot (nOf alpha naz) (eHat theta qaz))))] := by
  obtain ⟨i1, i2, i3⟩ := psi_identities theta qaz alpha naz
  have hcne : Real.cos theta ≠ 0 := C01.not_small_ne_zero h2
  have hsne : Real.sin tau ≠ 0 := C01.not_small_ne_zero h1
  have hspos : 0 < Real.sin tau := lt_of_le_of_ne hst (Ne.symm hsne)
  have hsign : (Scalar.sign (Real.sin tau) : ℝ) = 1 := by
    unfold Scalar.sign
    rw [if_neg (by rw [h1]; simp)]
    have : Scalar.lt (Scalar.zero : ℝ) (Real.sin tau) = true := by simp [hspos]
    rw [if_pos this]; simp
  have hcp : (Real.cos tau * Real.sin theta - Real.sin alpha) / Real.cos theta = -(V3.dot (nOf alpha naz) (eHat theta qaz)) := by
    rw [hct, i2]; field_simp
  have hsig : ((Real.cos alpha * Real.sin (qaz - naz)) * (Real.cos alpha * Real.sin (qaz - naz))
      + (-(V3.dot (nOf alpha naz) (eHat theta qaz))) * (-(V3.dot (nOf alpha naz) (eHat theta qaz)))) / (Real.sin tau * Real.sin tau) - 1 = 0 := by
    have hsc := Real.sin_sq_add_cos_sq tau
    rw [i1]
    have : (-(V3.dot (nOf alpha naz) (sHat qaz))) * (-(V3.dot (nOf alpha naz) (sHat qaz)))
        + (-(V3.dot (nOf alpha naz) (eHat theta qaz))) * (-(V3.dot (nOf alpha naz) (eHat theta qaz))) = Real.sin tau * Real.sin tau := by
      rw [← hct] at i3
      linear_combination i3 - hsc
    rw [this]; field_simp; ring
  unfold calcPsi
  simp only [rs_sin, rs_cos, rs_one, rs_atan2, h1, h2, h3, Bool.false_eq_true, if_false]
  rw [hcp, hsig]
  have h0 : Scalar.isSmall (0 : ℝ) = true := by rw [C01.isSmall_real]; simp; norm_num
  simp only [h0, Bool.not_true, Bool.false_eq_true, if_false, hsign, one_mul, i1]

theorem kfHat_comps (delta nu : ℝ) : C11.kfHat delta nu = ⟨Real.sin delta, Real.cos delta * Real.cos nu, Real.cos delta * Real.sin nu⟩ := by
  ext <;> simp [C11.kfHat, Gen.rot_NU, Gen.rot_DELTA, Gen.x_rotation, Gen.z_rotation, M3.mulVec, M3.mul] <;> ring

/-- away from 2θ ∈ {0, 180°} the scattered beam is `(sin 2θ sin qaz, cos 2θ, sin 2θ cos qaz)` for the (θ, qaz) the code derives from (δ, ν) -/
theorem kfHat_eq_kfOf (delta nu : ℝ) (hns : Scalar.isSmall (Real.sin (2 * (thetaQaz delta nu).1)) = false) :
    C11.kfHat delta nu = kfOf (thetaQaz delta nu).1 (thetaQaz delta nu).2 ∧ 0 < Real.sin (2 * (thetaQaz delta nu).1) := by
  have hcabs : |Real.cos delta * Real.cos nu| ≤ 1 := by
    rw [abs_mul]; exact mul_le_one₀ (Real.abs_cos_le_one _) (abs_nonneg _) (Real.abs_cos_le_one _)
  have hth : (thetaQaz delta nu).1 = Real.arccos (Real.cos delta * Real.cos nu) / 2 := by simp [thetaQaz]
  have h2 : 2 * (thetaQaz delta nu).1 = Real.arccos (Real.cos delta * Real.cos nu) := by rw [hth]; ring
  have hpos : 0 < Real.sin (2 * (thetaQaz delta nu).1) := by
    have hnn : 0 ≤ Real.sin (2 * (thetaQaz delta nu).1) := by
      rw [h2]; exact Real.sin_nonneg_of_nonneg_of_le_pi (Real.arccos_nonneg _) (Real.arccos_le_pi _)
    exact lt_of_le_of_ne hnn (Ne.symm (C01.not_small_ne_zero hns))
  have hq := qaz_geometric delta nu hns
  rw [kfHat_comps] at hq
  simp only [] at hq
  have hc2 : Real.cos (2 * (thetaQaz delta nu).1) = Real.cos delta * Real.cos nu := by
    rw [h2, Real.cos_arccos (abs_le.mp hcabs).1 (abs_le.mp hcabs).2]
  -- sin 2θ = √(x² + z²)
  have hd := Real.sin_sq_add_cos_sq delta
  have hn := Real.sin_sq_add_cos_sq nu
  have hsq : Real.sin (2 * (thetaQaz delta nu).1) ^ 2 = (Real.cos delta * Real.sin nu) ^ 2 + Real.sin delta ^ 2 := by
    have := Real.sin_sq_add_cos_sq (2 * (thetaQaz delta nu).1)
    rw [hc2] at this
    linear_combination this - (Real.cos delta ^ 2) * hn - hd
  have hsqrt : Real.sqrt ((Real.cos delta * Real.sin nu) ^ 2 + Real.sin delta ^ 2) = Real.sin (2 * (thetaQaz delta nu).1) := by
    rw [← hsq]; exact Real.sqrt_sq hpos.le
  have hne : Real.cos delta * Real.sin nu ≠ 0 ∨ Real.sin delta ≠ 0 := by
    by_contra hc
    push Not at hc
    rw [hc.1, hc.2] at hsq
    have : Real.sin (2 * (thetaQaz delta nu).1) = 0 := by nlinarith
    exact hpos.ne' this
  refine ⟨?_, hpos⟩
  rw [kfHat_comps]
  ext
  · simp only [kfOf]; rw [hq, sin_atan2R, hsqrt]; field_simp
  · simp only [kfOf]; exact hc2.symm
  · simp only [kfOf]; rw [hq, cos_atan2R hne, hsqrt]; field_simp

theorem norm_qDir' (theta qaz : ℝ) : V3.norm (C01.qDir theta qaz) = 1 := by
  have h := C01.qDir_unit theta qaz
  unfold V3.norm V3.normSq V3.dot
  simp only [rs_sqrt]
  rw [show (C01.qDir theta qaz).x * (C01.qDir theta qaz).x + (C01.qDir theta qaz).y * (C01.qDir theta qaz).y
      + (C01.qDir theta qaz).z * (C01.qDir theta qaz).z = 1 by linear_combination h]
  exact Real.sqrt_one

theorem unit_comps_sq (n : V3 ℝ) (h : V3.norm n = 1) : n.x ^ 2 + n.y ^ 2 + n.z ^ 2 = 1 := by
  have := C20.dot_self_of_norm_one n h
  simp only [V3.dot] at this; linear_combination this

/-- a unit vector whose projection on the x–z plane does not vanish is `nOf (asin(−n.y)) (atan2(n.x, n.z))` -/
theorem unit_eq_nOf (n : V3 ℝ) (h : V3.norm n = 1) (hc : Real.cos (Real.arcsin (-n.y)) ≠ 0) :
    n = nOf (Real.arcsin (-n.y)) (atan2R n.x n.z) := by
  have hu := unit_comps_sq n h
  have hy : -1 ≤ -n.y ∧ -n.y ≤ 1 := by constructor <;> nlinarith [sq_nonneg n.x, sq_nonneg n.z]
  have hs : Real.sin (Real.arcsin (-n.y)) = -n.y := Real.sin_arcsin hy.1 hy.2
  have hcos : Real.cos (Real.arcsin (-n.y)) = Real.sqrt (n.z ^ 2 + n.x ^ 2) := by
    rw [Real.cos_arcsin]; congr 1; linear_combination (-1 : ℝ) * hu
  have hpos : 0 < Real.sqrt (n.z ^ 2 + n.x ^ 2) := by
    rw [← hcos]; exact lt_of_le_of_ne (Real.cos_arcsin_nonneg _) (Ne.symm hc)
  have hne : n.z ≠ 0 ∨ n.x ≠ 0 := by
    by_contra hcon; push Not at hcon
    rw [hcon.1, hcon.2] at hpos; simp at hpos
  ext
  · simp only [nOf]; rw [hcos, sin_atan2R]; field_simp
  · simp only [nOf]; rw [hs]; ring
  · simp only [nOf]; rw [hcos, cos_atan2R hne]; field_simp

/-- **psi as returned by `get_virtual_angles` is the geometric azimuth** of the reference direction about the scattering vector,
    measured from the scattering plane: `atan2(−n̂·ŝ, −n̂·ê)` — whenever none of the code's thresholds is hit
    (2θ ∉ {0, 180°}, reference not along the beam axis, reference not along the scattering vector). -/
theorem psi_geometric (ub : UBIn ℝ) (p : Pos ℝ) (va : VAngles ℝ) (h : virtualAngles ub p = .ok va)
    (hnpos : 0 < V3.norm (M3.mulVec (M3.mul (M3.mul (M3.mul (Gen.rot_MU p.rad.mu) (Gen.rot_ETA p.rad.eta)) (Gen.rot_CHI p.rad.chi)) (Gen.rot_PHI p.rad.phi)) ub.n_phi))
    (h2t : Scalar.isSmall (Real.sin (2 * (thetaQaz p.rad.delta p.rad.nu).1)) = false)
    (hcth : Scalar.isSmall (Real.cos (thetaQaz p.rad.delta p.rad.nu).1) = false)
    (hsth : Scalar.isSmall (Real.sin (thetaQaz p.rad.delta p.rad.nu).1) = false)
    (hca : Scalar.isSmall (Real.cos (Real.arcsin (-(V3.normalised (M3.mulVec (M3.mul (M3.mul (M3.mul (Gen.rot_MU p.rad.mu) (Gen.rot_ETA p.rad.eta)) (Gen.rot_CHI p.rad.chi)) (Gen.rot_PHI p.rad.phi)) ub.n_phi)).y))) = false)
    (hstau : Scalar.isSmall (Real.sin (Real.arccos (V3.dot (C01.qDir (thetaQaz p.rad.delta p.rad.nu).1 (thetaQaz p.rad.delta p.rad.nu).2)
        (V3.normalised (M3.mulVec (M3.mul (M3.mul (M3.mul (Gen.rot_MU p.rad.mu) (Gen.rot_ETA p.rad.eta)) (Gen.rot_CHI p.rad.chi)) (Gen.rot_PHI p.rad.phi)) ub.n_phi))))) = false) :
    let n := V3.normalised (M3.mulVec (M3.mul (M3.mul (M3.mul (Gen.rot_MU p.rad.mu) (Gen.rot_ETA p.rad.eta)) (Gen.rot_CHI p.rad.chi)) (Gen.rot_PHI p.rad.phi)) ub.n_phi)
    va.psi = some (Scalar.toDeg (atan2R (-(V3.dot n (sHat (thetaQaz p.rad.delta p.rad.nu).2)))
      (-(V3.dot n (eHat (thetaQaz p.rad.delta p.rad.nu).1 (thetaQaz p.rad.delta p.rad.nu).2))))) := by
  intro n
  unfold virtualAngles at h
  simp only [angleBetween_eq, rs_zero, rs_one, rs_pi, rs_two, bind, Except.bind] at h
  set theta := (thetaQaz p.rad.delta p.rad.nu).1 with hthdef
  set qaz := (thetaQaz p.rad.delta p.rad.nu).2 with hqdef
  have hn1 : V3.norm n = 1 := by
    show V3.norm (V3.normalised _) = 1
    rw [C01.normalised_eq_unit _ hnpos]; exact V3.norm_unit _ hnpos
  have hu := unit_comps_sq n hn1
  have hyabs : |(-n.y)| ≤ 1 := by rw [abs_le]; constructor <;> nlinarith [sq_nonneg n.x, sq_nonneg n.z]
  -- alpha
  obtain ⟨a, ha⟩ := C11.boundAsin_ok hyabs
  obtain ⟨rfl, hsa⟩ := C01.boundAsin_ok hyabs ha
  change boundAsin (-n.y) = _ at ha
  -- the scattering direction
  obtain ⟨hkf, h2pos⟩ := kfHat_eq_kfOf p.rad.delta p.rad.nu h2t
  have hsth_pos : 0 < Real.sin theta := by
    have hcabs : |Real.cos p.rad.delta * Real.cos p.rad.nu| ≤ 1 := by
      rw [abs_mul]; exact mul_le_one₀ (Real.abs_cos_le_one _) (abs_nonneg _) (Real.abs_cos_le_one _)
    have hth : theta = Real.arccos (Real.cos p.rad.delta * Real.cos p.rad.nu) / 2 := by simp [hthdef, thetaQaz]
    have h0 : 0 ≤ theta := by rw [hth]; have := Real.arccos_nonneg (Real.cos p.rad.delta * Real.cos p.rad.nu); positivity
    have h1 : theta ≤ Real.pi := by rw [hth]; have := Real.arccos_le_pi (Real.cos p.rad.delta * Real.cos p.rad.nu); linarith [Real.pi_pos]
    exact lt_of_le_of_ne (Real.sin_nonneg_of_nonneg_of_le_pi h0 h1) (Ne.symm (C01.not_small_ne_zero hsth))
  have hq : V3.normalised (M3.mulVec (M3.sub (M3.mul (Gen.rot_NU p.rad.nu) (Gen.rot_DELTA p.rad.delta)) M3.id) ⟨0, 1, 0⟩) = C01.qDir theta qaz := by
    change V3.normalised (C11.qRaw p.rad.delta p.rad.nu) = _
    rw [C11.qRaw_eq, hkf, (sHat_geometric theta qaz).2, normalised_smul_pos _ (by positivity), C01.normalised_unit _ (norm_qDir' theta qaz)]
  have hfold : V3.normalised (M3.mulVec (M3.mul (M3.mul (M3.mul (Gen.rot_MU p.rad.mu) (Gen.rot_ETA p.rad.eta)) (Gen.rot_CHI p.rad.chi)) (Gen.rot_PHI p.rad.phi)) ub.n_phi) = n := rfl
  rw [hfold] at h hca hstau
  rw [hq, ha] at h
  simp only [] at h
  -- tau is defined: both directions are unit vectors
  have htol : (Scalar.isSmallTol (V3.norm (C01.qDir theta qaz)) (Scalar.ofSci 1 true 12) || Scalar.isSmallTol (V3.norm n) (Scalar.ofSci 1 true 12)) = false := by
    rw [norm_qDir', hn1]
    simp only [Scalar.isSmallTol, rs_le, rs_abs, Scalar.ofSci, Bool.or_self, decide_eq_false_iff_not, not_le]
    norm_num
  rw [htol] at h
  simp only [Bool.false_eq_true, if_false] at h
  have hdabs : |V3.dot (C01.qDir theta qaz) n| ≤ 1 := by
    have hcs := C11.cauchy_schwarz (C01.qDir theta qaz) n
    have e1 : V3.normSq (C01.qDir theta qaz) = 1 := C20.dot_self_of_norm_one _ (norm_qDir' theta qaz)
    have e2 : V3.normSq n = 1 := C20.dot_self_of_norm_one _ hn1
    rw [e1, e2] at hcs
    exact abs_le_one_iff_mul_self_le_one.mpr (by nlinarith)
  obtain ⟨t, ht⟩ := C11.boundAcos_ok hdabs
  obtain ⟨rfl, hct⟩ := C01.boundAcos_ok hdabs ht
  rw [ht] at h
  simp only [pure, Except.pure] at h
  have hcane : Real.cos (Real.arcsin (-n.y)) ≠ 0 := C01.not_small_ne_zero hca
  have hnof := unit_eq_nOf n hn1 hcane
  have hpsi : calcPsi (Real.arcsin (-n.y)) theta (Real.arccos (V3.dot (C01.qDir theta qaz) n))
      (some (qaz, if Scalar.isSmall (Scalar.cos (Real.arcsin (-n.y))) = true then none else some (Scalar.atan2 n.x n.z))) =
      [some (atan2R (-(V3.dot n (sHat qaz))) (-(V3.dot n (eHat theta qaz))))] := by
    simp only [rs_cos, rs_atan2, hca, Bool.false_eq_true, if_false]
    have := calcPsi_geometric (Real.arcsin (-n.y)) theta (Real.arccos (V3.dot (C01.qDir theta qaz) n)) qaz (atan2R n.x n.z)
      (by rw [hct, ← hnof]) (Real.sin_nonneg_of_nonneg_of_le_pi (Real.arccos_nonneg _) (Real.arccos_le_pi _)) hstau hcth hsth
    rw [← hnof] at this
    exact this
  cases hb : boundAsin (2 * Scalar.sin theta * Scalar.cos (Real.arccos (V3.dot (C01.qDir theta qaz) n)) - Scalar.sin (Real.arcsin (-n.y))) with
  | error e => rw [hb] at h; cases h
  | ok v =>
    rw [hb] at h
    simp only [Except.ok.injEq] at h
    subst h
    simp only [hpsi, List.headD_cons, Option.map_some]

end
end C05
