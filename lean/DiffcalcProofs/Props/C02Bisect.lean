import DiffcalcProofs.Props.C02
import DiffcalcProofs.Props.C01Sample
/-!
# C02 — the bisect relations

`bisect` ties mu and eta to the scattering-plane azimuth: `tan μ = tan(θ+ω)·cos qaz`, `sin η = sin(θ+ω)·sin qaz`, with ω the constrained
value when omega is constrained and free otherwise.  For the three branches that implement it every returned tuple satisfies the relation
**exactly**, except on the stated shortcut (|asin| within 1e-8 of 90°, where η is set to ±90° outright).
-/
namespace C02
open M3 Solver Scalar PyOps
noncomputable section

/-- the eta half of the bisect relation, with the solver's shortcut at ±90° spelled out -/
def EtaRel (thomega qaz eta : ℝ) : Prop :=
  Real.sin eta = Real.sin thomega * Real.sin qaz ∨
  (Scalar.isSmall (|Real.arcsin (Real.sin thomega * Real.sin qaz)| - Real.pi / 2) = true ∧
    eta = Scalar.sign (Real.arcsin (Real.sin thomega * Real.sin qaz)) * Real.pi / 2)

/-- the bisect relation for one sample tuple at the value `thomega = θ + ω` -/
def BisectRel (thomega qaz : ℝ) (t : STuple ℝ) : Prop :=
  Real.tan t.1 = Real.tan thomega * Real.cos qaz ∧ EtaRel thomega qaz t.2.1

theorem sin_mul_sin_bounds (a b : ℝ) : -1 ≤ Real.sin a * Real.sin b ∧ Real.sin a * Real.sin b ≤ 1 := by
  have h1 := Real.sin_le_one a; have h2 := Real.neg_one_le_sin a
  have h3 := Real.sin_le_one b; have h4 := Real.neg_one_le_sin b
  constructor <;> nlinarith

/-- the eta candidates of the bisect branches satisfy `EtaRel` -/
theorem etaVals_rel (thomega qaz e : ℝ)
    (he : e ∈ (if Scalar.isSmall (|Real.arcsin (Real.sin thomega * Real.sin qaz)| - Real.pi / 2)
      then [Scalar.sign (Real.arcsin (Real.sin thomega * Real.sin qaz)) * Real.pi / 2]
      else [Real.arcsin (Real.sin thomega * Real.sin qaz), Real.pi - Real.arcsin (Real.sin thomega * Real.sin qaz)])) :
    EtaRel thomega qaz e := by
  obtain ⟨hl, hu⟩ := sin_mul_sin_bounds thomega qaz
  split at he
  · rename_i hs
    simp only [List.mem_singleton] at he
    exact Or.inr ⟨hs, he⟩
  · simp only [List.mem_cons, List.not_mem_nil, or_false] at he
    rcases he with rfl | rfl
    · exact Or.inl (Real.sin_arcsin hl hu)
    · exact Or.inl (by rw [Real.sin_pi_sub, Real.sin_arcsin hl hu])

theorem tan_atan_vals (x m : ℝ) (hm : m ∈ [Real.arctan x, Real.arctan x + Real.pi]) : Real.tan m = x := by
  simp only [List.mem_cons, List.not_mem_nil, or_false] at hm
  rcases hm with rfl | rfl
  · exact Real.tan_arctan x
  · rw [Real.tan_periodic, Real.tan_arctan]

/-- **omega + bisect** (`__calc_sample_con_omega_bisect`): every returned tuple satisfies the bisect relation at the constrained omega -/
theorem omegaBisect_relation (omega qaz theta : ℝ) (N : M3 ℝ) :
    AllOk (BisectRel (theta + omega) qaz) (sampleConOmegaBisect omega qaz theta N) := by
  unfold sampleConOmegaBisect
  simp only [rs_tan, rs_cos, rs_sin, rs_atan, rs_asin, rs_pi, rs_two, rs_abs]
  apply allOk_forM'
  intro me hme
  obtain ⟨m, hm, hme⟩ := List.mem_flatMap.mp hme
  obtain ⟨e, he, rfl⟩ := List.mem_map.mp hme
  simp only []
  refine allOk_mono (pt_sampleConMuEta m e qaz theta N) ?_
  intro t ht
  obtain ⟨h1, h2⟩ := ht
  unfold muIs at h1; unfold etaIs at h2
  refine ⟨?_, ?_⟩
  · rw [h1]; exact tan_atan_vals _ m hm
  · rw [h2]; exact etaVals_rel (theta + omega) qaz e he

theorem tan_atan_vals' (x m : ℝ) (hm : m ∈ [Real.arctan x, Real.pi + Real.arctan x]) : Real.tan m = x := by
  simp only [List.mem_cons, List.not_mem_nil, or_false] at hm
  rcases hm with rfl | rfl
  · exact Real.tan_arctan x
  · rw [add_comm, Real.tan_periodic, Real.tan_arctan]

/-- **mu + bisect** (`__calc_sample_con_mu_bisect`, omega free): every returned tuple carries the constrained mu and satisfies the bisect
    relation for some value of θ+ω (on the generic branch `cos qaz` not small; on the other branch θ+ω = θ and both sides of the tan relation are small) -/
theorem muBisect_relation (mu qaz theta : ℝ) (N : M3 ℝ) :
    AllOk (fun t => muIs mu t ∧ ∃ thomega, (Scalar.isSmall (Real.cos qaz) = false → Real.tan t.1 = Real.tan thomega * Real.cos qaz) ∧
        EtaRel thomega qaz t.2.1)
      (sampleConMuBisect mu qaz theta N) := by
  unfold sampleConMuBisect
  simp only [rs_tan, rs_cos, rs_sin, rs_atan, rs_asin, rs_pi, rs_two, rs_abs]
  split
  · exact allOk_nil
  · rename_i ths hths
    apply allOk_forM'
    intro e he
    obtain ⟨thomega, hth, he⟩ := List.mem_flatMap.mp he
    refine allOk_mono (pt_sampleConMuEta mu e qaz theta N) ?_
    intro t ht
    obtain ⟨h1, h2⟩ := ht
    refine ⟨h1, thomega, ?_, ?_⟩
    · intro hcq
      rw [hcq] at hths
      simp only [Bool.false_eq_true, if_false, Option.some.injEq] at hths
      subst hths
      unfold muIs at h1
      rw [h1, tan_atan_vals' _ thomega hth]
      have : Real.cos qaz ≠ 0 := C01.not_small_ne_zero hcq
      field_simp
    · unfold etaIs at h2
      rw [h2]; exact etaVals_rel thomega qaz e he

/-- **eta + bisect** (`__calc_sample_con_eta_bisect`, omega free): on the generic branch (`sin qaz` not small, `sin η / sin qaz` within [-1, 1],
    |asin| not within 1e-8 of 90°) every returned tuple carries the constrained eta and satisfies both bisect relations for some θ+ω -/
theorem etaBisect_relation (eta qaz theta : ℝ) (N : M3 ℝ) (hsq : Scalar.isSmall (Real.sin qaz) = false)
    (hclip : |Real.sin eta / Real.sin qaz| ≤ 1)
    (hgen : Scalar.isSmall (|Real.arcsin (Real.sin eta / Real.sin qaz)| - Real.pi / 2) = false) :
    AllOk (fun t => etaIs eta t ∧ ∃ thomega, Real.tan t.1 = Real.tan thomega * Real.cos qaz ∧ Real.sin t.2.1 = Real.sin thomega * Real.sin qaz)
      (sampleConEtaBisect eta qaz theta N) := by
  unfold sampleConEtaBisect
  simp only [rs_tan, rs_cos, rs_sin, rs_atan, rs_pi, rs_two, rs_abs]
  rw [hsq]
  simp only [Bool.false_eq_true, if_false]
  have hsne : Real.sin qaz ≠ 0 := C01.not_small_ne_zero hsq
  apply allOk_tryAssert
  intro a ha
  obtain ⟨rfl, hsin⟩ := C01.boundAsin_ok hclip ha
  rw [hgen]
  simp only [Bool.false_eq_true, if_false]
  apply allOk_forM'
  intro m hm
  obtain ⟨thomega, hth, hm⟩ := List.mem_flatMap.mp hm
  refine allOk_mono (pt_sampleConMuEta m eta qaz theta N) ?_
  intro t ht
  obtain ⟨h1, h2⟩ := ht
  refine ⟨h2, thomega, ?_, ?_⟩
  · unfold muIs at h1
    rw [h1]; exact tan_atan_vals' _ m hm
  · unfold etaIs at h2
    rw [h2]
    have hs : Real.sin thomega = Real.sin eta / Real.sin qaz := by
      simp only [List.mem_cons, List.not_mem_nil, or_false] at hth
      rcases hth with rfl | rfl
      · exact hsin
      · rw [Real.sin_pi_sub]; exact hsin
    rw [hs]; field_simp

end
end C02
