import Diffcalc.Model.CalcUB
import DiffcalcProofs.Props.C20
import DiffcalcProofs.Props.C18
/-!
# C07 — calc_ub recovers the crystal orientation from any two consistent references

Model: `Diffcalc/Model/CalcUB.lean` (hand, tie H).  Proved (real reading):
* `cross_rot`: proper rotations commute with the cross product;
* `triad_equivariant`: the orthonormal triad of `(k₁·R a, k₂·R b)` (any positive scalings `k₁, k₂`) is `R ·` the triad of `(a, b)`;
* `calcUb_recovers`: if both references are consistent with a true orientation `U0 ∈ SO(3)` (their phi-frame directions are positive
  multiples of `U0·B·h_i`), `calc_ub` sets `U = U0` (hence `UB = U0·B`);
* `triad_orthonormal`, `calcUb_proper`: for ARBITRARY (inconsistent) data the result is a proper rotation;
* `calcUb_first_direction`: the direction of the first reference is reproduced exactly;
* parallel references are rejected with DiffcalcException (`triad_parallel_rejected`).
The reference selection table (index / tag, reflection / orientation mixes) and the single-reflection path are covered by
correspondence and oracle.
-/
namespace C07
open M3 CalcUB PyOps
noncomputable section

theorem inv_of_isRot {r : M3 ℝ} (h : IsRot r) : M3.inv r = M3.transpose r := by
  have h1 : M3.det r ≠ 0 := by rw [h.2]; norm_num
  have := congrArg (fun m => M3.mul m (M3.inv r)) h.1
  simp only [M3.mul_assoc', M3.mul_inv_cancel r h1, M3.mul_id, M3.id_mul] at this
  exact this.symm

/-- the cross product of two images under any matrix is the cofactor matrix applied to the cross product -/
theorem cross_mulVec (A : M3 ℝ) (v w : V3 ℝ) :
    V3.cross (M3.mulVec A v) (M3.mulVec A w) = M3.mulVec (M3.transpose (M3.adj A)) (V3.cross v w) := by
  ext <;> simp only [V3.cross, M3.mulVec, M3.transpose, M3.adj] <;> ring

/-- proper rotations commute with the cross product -/
theorem cross_rot {R : M3 ℝ} (h : IsRot R) (v w : V3 ℝ) :
    V3.cross (M3.mulVec R v) (M3.mulVec R w) = M3.mulVec R (V3.cross v w) := by
  rw [cross_mulVec]
  have hinv := inv_of_isRot h
  have hadj : M3.adj R = M3.transpose R := by
    have : M3.inv R = M3.adj R := by
      ext <;> simp [M3.inv, M3.smul, h.2]
    rw [← this, hinv]
  rw [hadj, C06.transpose_transpose]

theorem cross_smul_left (c : ℝ) (a b : V3 ℝ) : V3.cross (V3.smul c a) b = V3.smul c (V3.cross a b) := by
  ext <;> simp only [V3.cross, V3.smul] <;> ring

theorem unit_rot {R : M3 ℝ} (h : IsRot R) (v : V3 ℝ) : V3.unit (M3.mulVec R v) = M3.mulVec R (V3.unit v) := by
  have hn := C08.norm_rot R h v
  ext <;> simp only [V3.unit, hn] <;> simp only [M3.mulVec] <;> ring

theorem normalise_ok {v n : V3 ℝ} (h : normaliseOrFail v = .ok n) : n = V3.unit v ∧ 0 < V3.norm v := by
  unfold normaliseOrFail at h
  simp only [] at h
  split at h
  · cases h
  · rename_i hlt
    simp only [rs_lt, Scalar.SMALL, Scalar.ofSci, decide_eq_true_eq, not_lt] at hlt
    cases h
    refine ⟨rfl, ?_⟩
    have : (0:ℝ) < OfScientific.ofScientific 1 true 7 := by norm_num
    linarith

theorem normalise_of_pos {v : V3 ℝ} (h : (1e-7 : ℝ) ≤ V3.norm v) : normaliseOrFail v = .ok (V3.unit v) := by
  unfold normaliseOrFail
  simp only []
  have : Scalar.lt (V3.norm v) (Scalar.SMALL : ℝ) = false := by
    simp only [rs_lt, Scalar.SMALL, Scalar.ofSci, decide_eq_false_iff_not, not_lt]; norm_num at h ⊢; exact h
  rw [if_neg (by rw [this]; simp)]
  rfl

theorem triad_ok {a b : V3 ℝ} {T : M3 ℝ} (h : triad a b = .ok T) :
    T = M3.ofCols (V3.unit a) (V3.unit (V3.cross (V3.cross a b) a)) (V3.unit (V3.cross a b)) ∧
    0 < V3.norm a ∧ 0 < V3.norm (V3.cross (V3.cross a b) a) ∧ 0 < V3.norm (V3.cross a b) := by
  unfold triad at h
  simp only [] at h
  obtain ⟨n1, h1, h⟩ := bind_ok_inv h
  obtain ⟨n2, h2, h⟩ := bind_ok_inv h
  obtain ⟨n3, h3, h⟩ := bind_ok_inv h
  simp only [pure, Except.pure, Except.ok.injEq] at h
  obtain ⟨e1, p1⟩ := normalise_ok h1
  obtain ⟨e2, p2⟩ := normalise_ok h2
  obtain ⟨e3, p3⟩ := normalise_ok h3
  subst e1 e2 e3
  exact ⟨h.symm, p1, p2, p3⟩

theorem ofCols_mul (R : M3 ℝ) (a b c : V3 ℝ) :
    M3.ofCols (M3.mulVec R a) (M3.mulVec R b) (M3.mulVec R c) = M3.mul R (M3.ofCols a b c) := by
  ext <;> simp only [M3.ofCols, M3.mulVec, M3.mul]

theorem unit_smul_rot {R : M3 ℝ} (h : IsRot R) (c : ℝ) (hc : 0 < c) (v : V3 ℝ) (hv : 0 < V3.norm v) :
    V3.unit (V3.smul c (M3.mulVec R v)) = M3.mulVec R (V3.unit v) := by
  rw [V3.unit_smul_pos c hc _ (by rw [C08.norm_rot R h]; exact hv), unit_rot h]

/-- **equivariance of the triad**: consistent data give the rotated triad -/
theorem triad_equivariant {R : M3 ℝ} (hR : IsRot R) (a b : V3 ℝ) (k1 k2 : ℝ) (h1 : 0 < k1) (h2 : 0 < k2) (Tc Tp : M3 ℝ)
    (hc : triad a b = .ok Tc) (hp : triad (V3.smul k1 (M3.mulVec R a)) (V3.smul k2 (M3.mulVec R b)) = .ok Tp) :
    Tp = M3.mul R Tc := by
  obtain ⟨ec, pa, p2, p3⟩ := triad_ok hc
  obtain ⟨ep, _, _, _⟩ := triad_ok hp
  rw [ep, ec, ← ofCols_mul]
  have c3 : V3.cross (V3.smul k1 (M3.mulVec R a)) (V3.smul k2 (M3.mulVec R b)) = V3.smul (k1 * k2) (M3.mulVec R (V3.cross a b)) := by
    rw [cross_smul_left, C20.cross_smul_right, cross_rot hR]
    ext <;> simp only [V3.smul] <;> ring
  have c2 : V3.cross (V3.smul (k1 * k2) (M3.mulVec R (V3.cross a b))) (V3.smul k1 (M3.mulVec R a))
      = V3.smul (k1 * k2 * k1) (M3.mulVec R (V3.cross (V3.cross a b) a)) := by
    rw [cross_smul_left, C20.cross_smul_right, cross_rot hR]
    ext <;> simp only [V3.smul] <;> ring
  rw [c3, c2, unit_smul_rot hR k1 h1 a pa, unit_smul_rot hR _ (by positivity) _ p2, unit_smul_rot hR _ (by positivity) _ p3]

theorem norm_unit_sq (v : V3 ℝ) (hv : 0 < V3.norm v) : V3.dot (V3.unit v) (V3.unit v) = 1 := by
  have h := V3.norm_unit v hv
  have h2 : V3.norm (V3.unit v) ^ 2 = V3.normSq (V3.unit v) := by
    simp only [V3.norm, rs_sqrt]; exact Real.sq_sqrt (V3.normSq_nonneg _)
  rw [h] at h2; simp only [V3.normSq] at h2; linarith

theorem dot_unit (u v : V3 ℝ) : V3.dot (V3.unit u) (V3.unit v) = V3.dot u v / (V3.norm u * V3.norm v) := by
  simp only [V3.dot, V3.unit]; ring

/-- the matrix whose columns are the unit vectors along `a`, `(a×b)×a`, `a×b` -/
def triadMat (a b : V3 ℝ) : M3 ℝ := M3.ofCols (V3.unit a) (V3.unit (V3.cross (V3.cross a b) a)) (V3.unit (V3.cross a b))

/-- it is orthonormal as soon as the three vectors are non-zero -/
theorem triadMat_orthonormal (a b : V3 ℝ) (pa : 0 < V3.norm a) (p2 : 0 < V3.norm (V3.cross (V3.cross a b) a)) (p3 : 0 < V3.norm (V3.cross a b)) :
    M3.mul (M3.transpose (triadMat a b)) (triadMat a b) = M3.id := by
  unfold triadMat
  have u1 := norm_unit_sq a pa
  have u2 := norm_unit_sq _ p2
  have u3 := norm_unit_sq _ p3
  have o12 : V3.dot (V3.unit a) (V3.unit (V3.cross (V3.cross a b) a)) = 0 := by
    rw [dot_unit]; have : V3.dot a (V3.cross (V3.cross a b) a) = 0 := by simp only [V3.dot, V3.cross]; ring
    rw [this, zero_div]
  have o13 : V3.dot (V3.unit a) (V3.unit (V3.cross a b)) = 0 := by
    rw [dot_unit]; have : V3.dot a (V3.cross a b) = 0 := by simp only [V3.dot, V3.cross]; ring
    rw [this, zero_div]
  have o23 : V3.dot (V3.unit (V3.cross (V3.cross a b) a)) (V3.unit (V3.cross a b)) = 0 := by
    rw [dot_unit]; have : V3.dot (V3.cross (V3.cross a b) a) (V3.cross a b) = 0 := by simp only [V3.dot, V3.cross]; ring
    rw [this, zero_div]
  simp only [V3.dot] at u1 u2 u3 o12 o13 o23
  ext <;> simp only [M3.mul, M3.transpose, M3.ofCols, M3.id, rs_one, rs_zero] <;> linarith

/-- the triad matrix is orthonormal -/
theorem triad_orthonormal {a b : V3 ℝ} {T : M3 ℝ} (h : triad a b = .ok T) : M3.mul (M3.transpose T) T = M3.id := by
  obtain ⟨e, pa, p2, p3⟩ := triad_ok h
  subst e
  exact triadMat_orthonormal a b pa p2 p3

theorem triad_det_ne {a b : V3 ℝ} {T : M3 ℝ} (h : triad a b = .ok T) : M3.det T ≠ 0 := by
  intro h0
  have := congrArg M3.det (triad_orthonormal h)
  rw [M3.det_mul, M3.det_transpose, h0] at this
  simp [M3.det, M3.id] at this

/-- **C07, consistent references**: `calc_ub` recovers the true orientation -/
theorem calcUb_recovers (B : M3 ℝ) (U0 : M3 ℝ) (hU : IsRot U0) (r1 r2 : Ref ℝ) (k1 k2 : ℝ) (hk1 : 0 < k1) (hk2 : 0 < k2)
    (h1 : r1.uPhi = V3.smul k1 (M3.mulVec U0 (M3.mulVec B r1.hkl)))
    (h2 : r2.uPhi = V3.smul k2 (M3.mulVec U0 (M3.mulVec B r2.hkl)))
    (U : M3 ℝ) (hres : fromTwo B r1 r2 = .ok U) : U = U0 := by
  unfold fromTwo at hres
  obtain ⟨Tc, hc, hres⟩ := bind_ok_inv hres
  obtain ⟨Tp, hp, hres⟩ := bind_ok_inv hres
  simp only [pure, Except.pure, Except.ok.injEq] at hres
  rw [h1, h2] at hp
  have e := triad_equivariant hU _ _ k1 k2 hk1 hk2 Tc Tp hc hp
  rw [← hres, e, M3.mul_assoc', M3.mul_inv_cancel Tc (triad_det_ne hc), M3.mul_id]

/-- and right-handed -/
theorem triadMat_det_one (a b : V3 ℝ) (pa : 0 < V3.norm a) (p2 : 0 < V3.norm (V3.cross (V3.cross a b) a)) (p3 : 0 < V3.norm (V3.cross a b)) :
    M3.det (triadMat a b) = 1 := by
  have hsq : M3.det (triadMat a b) * M3.det (triadMat a b) = 1 := by
    have := congrArg M3.det (triadMat_orthonormal a b pa p2 p3)
    rw [M3.det_mul, M3.det_transpose] at this
    simpa [M3.det, M3.id] using this
  have hpos : 0 < M3.det (triadMat a b) := by
    have hd : M3.det (triadMat a b)
        = (V3.dot (V3.cross a b) (V3.cross a b) * V3.dot a a) / (V3.norm a * V3.norm (V3.cross (V3.cross a b) a) * V3.norm (V3.cross a b)) := by
      have n1 := pa.ne'; have n2 := p2.ne'; have n3 := p3.ne'
      simp only [triadMat, M3.det, M3.ofCols, V3.unit, V3.cross, V3.dot]
      field_simp
      ring
    rw [hd]
    have q1 : 0 < V3.dot a a := by
      have := (V3.norm_pos_iff a).mp pa
      simp only [V3.dot]; rcases this with h | h | h <;> nlinarith [sq_nonneg a.x, sq_nonneg a.y, sq_nonneg a.z, sq_pos_of_ne_zero h]
    have q3 : 0 < V3.dot (V3.cross a b) (V3.cross a b) := by
      have := (V3.norm_pos_iff (V3.cross a b)).mp p3
      simp only [V3.dot]; rcases this with h | h | h <;>
        nlinarith [sq_nonneg (V3.cross a b).x, sq_nonneg (V3.cross a b).y, sq_nonneg (V3.cross a b).z, sq_pos_of_ne_zero h]
    positivity
  nlinarith

theorem triadMat_isRot (a b : V3 ℝ) (pa : 0 < V3.norm a) (p2 : 0 < V3.norm (V3.cross (V3.cross a b) a)) (p3 : 0 < V3.norm (V3.cross a b)) :
    IsRot (triadMat a b) := ⟨triadMat_orthonormal a b pa p2 p3, triadMat_det_one a b pa p2 p3⟩

/-- both triads are right-handed: `t1 · (t2 × t3) = 1` -/
theorem triad_det_one {a b : V3 ℝ} {T : M3 ℝ} (h : triad a b = .ok T) : M3.det T = 1 := by
  obtain ⟨e, pa, p2, p3⟩ := triad_ok h
  subst e
  exact triadMat_det_one a b pa p2 p3

/-- **C07, arbitrary data**: whatever the two references are (as long as neither pair is parallel), `U` is a proper rotation -/
theorem calcUb_proper (B : M3 ℝ) (r1 r2 : Ref ℝ) (U : M3 ℝ) (hres : fromTwo B r1 r2 = .ok U) : IsRot U := by
  unfold fromTwo at hres
  obtain ⟨Tc, hc, hres⟩ := bind_ok_inv hres
  obtain ⟨Tp, hp, hres⟩ := bind_ok_inv hres
  simp only [pure, Except.pure, Except.ok.injEq] at hres
  have hTc : IsRot Tc := ⟨triad_orthonormal hc, triad_det_one hc⟩
  have hTp : IsRot Tp := ⟨triad_orthonormal hp, triad_det_one hp⟩
  rw [← hres, inv_of_isRot hTc]
  exact IsRot.mul hTp (C04.isRot_transpose hTc)

/-- **C07, first reference**: `U` maps the crystal direction of the first reference exactly onto its measured direction -/
theorem calcUb_first_direction (B : M3 ℝ) (r1 r2 : Ref ℝ) (U : M3 ℝ) (hres : fromTwo B r1 r2 = .ok U) :
    M3.mulVec U (V3.unit (M3.mulVec B r1.hkl)) = V3.unit r1.uPhi := by
  unfold fromTwo at hres
  obtain ⟨Tc, hc, hres⟩ := bind_ok_inv hres
  obtain ⟨Tp, hp, hres⟩ := bind_ok_inv hres
  simp only [pure, Except.pure, Except.ok.injEq] at hres
  obtain ⟨ec, _, _, _⟩ := triad_ok hc
  obtain ⟨ep, _, _, _⟩ := triad_ok hp
  have hTc : IsRot Tc := ⟨triad_orthonormal hc, triad_det_one hc⟩
  -- the first column of Tc is the unit crystal direction: Tc·e_x = it, so inv Tc maps it to e_x, and Tp maps e_x to its first column
  have hcol : M3.mulVec Tc ⟨1, 0, 0⟩ = V3.unit (M3.mulVec B r1.hkl) := by
    rw [ec]; ext <;> simp [M3.mulVec, M3.ofCols]
  have hcolp : M3.mulVec Tp ⟨1, 0, 0⟩ = V3.unit r1.uPhi := by
    rw [ep]; ext <;> simp [M3.mulVec, M3.ofCols]
  rw [← hres, ← hcol, M3.mulVec_mul, M3.inv_mulVec_cancel Tc (triad_det_ne hc), hcolp]

theorem triad_error {a b : V3 ℝ} {e : PErr} (h : triad a b = .error e) : e = .dce := by
  unfold triad at h
  simp only [] at h
  have hn : ∀ v : V3 ℝ, ∀ e', normaliseOrFail v = .error e' → e' = .dce := by
    intro v e' hv; unfold normaliseOrFail at hv; simp only [] at hv; split at hv <;> cases hv; rfl
  cases h1 : normaliseOrFail a with
  | error e1 => rw [h1] at h; simp only [bind, Except.bind] at h; cases h; exact hn _ _ h1
  | ok n1 =>
    rw [h1] at h
    cases h2 : normaliseOrFail (V3.cross (V3.cross a b) a) with
    | error e2 => rw [h2] at h; simp only [bind, Except.bind] at h; cases h; exact hn _ _ h2
    | ok n2 =>
      rw [h2] at h
      cases h3 : normaliseOrFail (V3.cross a b) with
      | error e3 => rw [h3] at h; simp only [bind, Except.bind] at h; cases h; exact hn _ _ h3
      | ok n3 => rw [h3] at h; simp [bind, Except.bind, pure, Except.pure] at h

/-- parallel references (their cross product below the threshold) are rejected with DiffcalcException -/
theorem triad_parallel_rejected (a b : V3 ℝ) (h : V3.norm (V3.cross a b) < 1e-7) : triad a b = .error .dce ∨ ∃ e, triad a b = .error e ∧ e = .dce := by
  left
  unfold triad
  simp only []
  have h3 : normaliseOrFail (V3.cross a b) = .error .dce := by
    unfold normaliseOrFail
    simp only []
    have : Scalar.lt (V3.norm (V3.cross a b)) (Scalar.SMALL : ℝ) = true := by
      simp only [rs_lt, Scalar.SMALL, Scalar.ofSci, decide_eq_true_eq]; norm_num at h ⊢; exact h
    rw [if_pos this]
  cases h1 : normaliseOrFail a with
  | error e =>
    simp only [bind, Except.bind]
    unfold normaliseOrFail at h1; simp only [] at h1; split at h1 <;> cases h1; rfl
  | ok n1 =>
    cases h2 : normaliseOrFail (V3.cross (V3.cross a b) a) with
    | error e =>
      simp only [bind, Except.bind]
      unfold normaliseOrFail at h2; simp only [] at h2; split at h2 <;> cases h2; rfl
    | ok n2 => simp only [bind, Except.bind, h3]

/-! ## single reflection (`_calc_ub_from_primary_only`) -/

theorem rodMat_apply (kx ky kz c s : ℝ) (x : V3 ℝ) :
    M3.mulVec (C08.rodMat kx ky kz c s) x =
      V3.add (V3.add (V3.smul c x) (V3.smul s (V3.cross ⟨kx, ky, kz⟩ x))) (V3.smul ((1 - c) * V3.dot ⟨kx, ky, kz⟩ x) ⟨kx, ky, kz⟩) := by
  ext <;> simp only [M3.mulVec, C08.rodMat, V3.add, V3.smul, V3.cross, V3.dot] <;> ring

theorem norm_sq (v : V3 ℝ) : V3.norm v * V3.norm v = V3.dot v v := by
  simp only [V3.norm, rs_sqrt]; exact Real.mul_self_sqrt (V3.normSq_nonneg v)

/-- the rotation about `a × b` by `acos (a·b)` takes the unit vector `a` onto the unit vector `b` -/
theorem rod_align (a b : V3 ℝ) (ha : V3.dot a a = 1) (hb : V3.dot b b = 1) (hs : 0 < V3.norm (V3.cross a b)) :
    M3.mulVec (C08.rodMat ((V3.cross a b).x / V3.norm (V3.cross a b)) ((V3.cross a b).y / V3.norm (V3.cross a b))
      ((V3.cross a b).z / V3.norm (V3.cross a b)) (Real.cos (Real.arccos (V3.dot a b))) (Real.sin (Real.arccos (V3.dot a b)))) a = b := by
  have hlag := C20.lagrange a b
  rw [ha, hb] at hlag
  have hss := norm_sq (V3.cross a b)
  set s := V3.norm (V3.cross a b) with hsdef
  set c := V3.dot a b with hcdef
  have hs2 : s * s = 1 - c ^ 2 := by rw [hss, hlag]; ring
  have hc1 : c ^ 2 ≤ 1 := by nlinarith [mul_pos hs hs]
  have hcl : -1 ≤ c := by nlinarith
  have hcu : c ≤ 1 := by nlinarith
  rw [Real.cos_arccos hcl hcu, Real.sin_arccos]
  have hsq : Real.sqrt (1 - c ^ 2) = s := by rw [← hs2]; exact Real.sqrt_mul_self hs.le
  rw [hsq, rodMat_apply]
  have hne := hs.ne'
  have hst : s * s⁻¹ = 1 := mul_inv_cancel₀ hne
  simp only [V3.dot] at ha hcdef
  ext <;> simp only [V3.add, V3.smul, V3.cross, V3.dot, div_eq_mul_inv] <;> rw [hcdef] <;> generalize s⁻¹ = t at hst
  · linear_combination ((b.x*(a.x*a.x+a.y*a.y+a.z*a.z) - a.x*(a.x*b.x+a.y*b.y+a.z*b.z))) * hst + b.x * ha
  · linear_combination ((b.y*(a.x*a.x+a.y*a.y+a.z*a.z) - a.y*(a.x*b.x+a.y*b.y+a.z*b.z))) * hst + b.y * ha
  · linear_combination ((b.z*(a.x*a.x+a.y*a.y+a.z*a.z) - a.z*(a.x*b.x+a.y*b.y+a.z*b.z))) * hst + b.z * ha

/-- the single-reflection matrix is the Rodrigues matrix about the normalised `hc × q` by `acos (hc · q)` -/
theorem fromOne_eq (B : M3 ℝ) (h q : V3 ℝ) :
    fromOne B h q =
      (let a := V3.unit (M3.mulVec B h); let b := V3.unit q; let n := V3.cross a b
       C08.rodMat (n.x / V3.norm n) (n.y / V3.norm n) (n.z / V3.norm n) (Real.cos (Real.arccos (V3.dot a b))) (Real.sin (Real.arccos (V3.dot a b)))) := by
  have e1 : ∀ v : V3 ℝ, V3.smul (1 / V3.norm v) v = V3.unit v := by
    intro v; ext <;> simp only [V3.smul, V3.unit] <;> ring
  simp only [fromOne, rs_one, rs_cos, rs_sin, rs_acos, e1]
  ext <;> simp only [C08.rodMat, V3.unit] <;> ring

/-- **C07, single reflection**: the result is a proper rotation … -/
theorem fromOne_isRot (B : M3 ℝ) (h q : V3 ℝ) (hn : 0 < V3.norm (V3.cross (V3.unit (M3.mulVec B h)) (V3.unit q))) :
    IsRot (fromOne B h q) := by
  rw [fromOne_eq]
  exact C08.rodMat_isRot _ _ _ _ _ (C08.unit_comps _ hn) (Real.sin_sq_add_cos_sq _)

/-- … that maps the crystal direction of the reflection onto its measured direction -/
theorem fromOne_reproduces (B : M3 ℝ) (h q : V3 ℝ) (hh : 0 < V3.norm (M3.mulVec B h)) (hq : 0 < V3.norm q)
    (hn : 0 < V3.norm (V3.cross (V3.unit (M3.mulVec B h)) (V3.unit q))) :
    M3.mulVec (fromOne B h q) (V3.unit (M3.mulVec B h)) = V3.unit q := by
  rw [fromOne_eq]
  exact rod_align _ _ (norm_unit_sq _ hh) (norm_unit_sq _ hq) hn

/-! ## reference selection -/

theorem getRef_num (l : List (Stored ℝ)) (i : Nat) (h1 : 1 ≤ i) (h2 : i ≤ l.length) :
    getRef l (.num i) = (match l[i - 1]? with | some r => (.ok r.ref : Except LErr (Ref ℝ)) | none => .error .index) := by
  unfold getRef
  rw [C18.locate_num _ l i h1 h2]
  simp only []
  cases l[i - 1]? <;> rfl

theorem getRef_above (l : List (Stored ℝ)) (i : Nat) (h : l.length < i) : getRef l (.num i) = .error .index := by
  unfold getRef
  rw [C18.locate_above _ l i h]

/-- an integer index beyond the reflection list addresses the orientation list (and a reflection, when present, shadows it) -/
theorem pick_orientation_by_number (rs os : List (Stored ℝ)) (i : Nat) (h : rs.length < i) :
    pick rs os (some (.num i)) = (getRef os (.num i)).toOption := by
  simp only [pick, getRef_above rs i h]
  cases getRef os (.num i) <;> rfl

theorem pick_reflection_first (rs os : List (Stored ℝ)) (ix : Idx) (r : Ref ℝ) (h : getRef rs ix = .ok r) :
    pick rs os (some ix) = some r := by
  simp only [pick, h]

/-- the two explicitly addressed references are looked up independently: swapping the arguments swaps the references -/
theorem select_swap (rs os : List (Stored ℝ)) (i j : Idx) (a b : Ref ℝ) :
    select rs os (some i) (some j) = .two a b ↔ select rs os (some j) (some i) = .two b a := by
  simp only [select]
  cases pick rs os (some i) <;> cases pick rs os (some j) <;> simp
  exact and_comm

/-- with no arguments (and not exactly one reflection) the first two of reflection 1, reflection 2, orientation 1, orientation 2 that exist are used -/
theorem select_default_two_reflections (rs os : List (Stored ℝ)) (r1 r2 : Stored ℝ) (rest : List (Stored ℝ)) (h : rs = r1 :: r2 :: rest) :
    select rs os none none = .two r1.ref r2.ref := by
  subst h
  have g1 : getRef (r1 :: r2 :: rest) (.num 1) = .ok r1.ref := by
    have := getRef_num (r1 :: r2 :: rest) 1 (by omega) (by simp); simpa using this
  have g2 : getRef (r1 :: r2 :: rest) (.num 2) = .ok r2.ref := by
    have := getRef_num (r1 :: r2 :: rest) 2 (by omega) (by simp); simpa using this
  simp [select, g1, g2]

theorem select_default_orientations (os : List (Stored ℝ)) (o1 o2 : Stored ℝ) (rest : List (Stored ℝ)) (h : os = o1 :: o2 :: rest) :
    select [] os none none = .two o1.ref o2.ref := by
  subst h
  have g1 : getRef (o1 :: o2 :: rest) (.num 1) = .ok o1.ref := by
    have := getRef_num (o1 :: o2 :: rest) 1 (by omega) (by simp); simpa using this
  have g2 : getRef (o1 :: o2 :: rest) (.num 2) = .ok o2.ref := by
    have := getRef_num (o1 :: o2 :: rest) 2 (by omega) (by simp); simpa using this
  have e1 : getRef ([] : List (Stored ℝ)) (.num 1) = .error .index := by
    have := getRef_above ([] : List (Stored ℝ)) 1 (by simp); simpa using this
  have e2 : getRef ([] : List (Stored ℝ)) (.num 2) = .error .index := by
    have := getRef_above ([] : List (Stored ℝ)) 2 (by simp); simpa using this
  simp [select, g1, g2, e1, e2]

/-- a failing `calc_ub` produces no matrix at all: the caller's `U`, `UB` stay as they were (the model returns the new `U` only on success) -/
theorem calcUb_error_kinds (B : M3 ℝ) (rs os : List (Stored ℝ)) (i1 i2 : Option Idx) (e : PErr)
    (h : calcUb B rs os i1 i2 = .error e) (hsel : ∀ r, select rs os i1 i2 = .one r → ∃ hh a b c d e f, r = .refl hh a b c d e f) :
    e = .dce ∨ e = .valueError := by
  unfold calcUb at h
  split at h
  · rename_i a b _
    unfold fromTwo at h
    cases h1 : triad (M3.mulVec B a.hkl) (M3.mulVec B b.hkl) with
    | error e1 =>
      rw [h1] at h; simp only [bind, Except.bind] at h; cases h
      left; exact triad_error h1
    | ok Tc =>
      rw [h1] at h
      cases h2 : triad a.uPhi b.uPhi with
      | error e2 => rw [h2] at h; simp only [bind, Except.bind] at h; cases h; left; exact triad_error h2
      | ok Tp => rw [h2] at h; simp [bind, Except.bind, pure, Except.pure] at h
  · cases h
  · rename_i hs
    obtain ⟨_, _, _, _, _, _, _, hr⟩ := hsel _ hs
    cases hr
  · cases h; left; rfl
  · cases h; right; rfl
end
end C07
