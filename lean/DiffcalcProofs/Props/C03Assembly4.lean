import DiffcalcProofs.Props.C03Assembly3
/-!
# C03 — the reference layer: the psi values `__calc_psi` yields contain the psi of the position

For a position `P` that satisfies the orientation equation `Z · N_phi · PSI(ψ)ᵀ · THETAᵀ = F(qaz)` (You's definition of ψ), with `N_phi` the
triad of the scattering direction `Q̂` and the reference direction `n̂`, the elevation of the laboratory reference direction obeys
`sin α = cos τ sin θ − cos θ sin τ cos ψ` (`alpha_of_refSpec`, τ the angle between `Q̂` and `n̂`).  Hence `cos ψ` is the quotient `__calc_psi`
takes the `acos` of, and the pair `± acos` it yields contains ψ modulo 2π (`calcPsi_complete`).  With it `refSamp2_complete` no longer needs
"ψ is among the values tried" as a hypothesis, only that the alpha the reference layer derived is the elevation of `P`'s reference direction
(`refSamp2_complete'`) — the same hypothesis `detRefSamp_complete` has.
-/
namespace C03
open M3 Solver Scalar PyOps C01
noncomputable section

/-- decomposition of a unit vector along the triad of `(Q, n)`: `n = (Q·n) Q + |Q×n| e₂` -/
theorem triad_decomposition (Q n : V3 ℝ) (hQ : V3.dot Q Q = 1) (p3 : 0 < V3.norm (V3.cross Q n)) :
    n = M3.mulVec (C07.triadMat Q n) ⟨V3.dot Q n, V3.norm (V3.cross Q n), 0⟩ := by
  have hQ1 : V3.norm Q = 1 := by simp [V3.norm, V3.normSq, hQ]
  -- (Q×n)×Q = n − (Q·n) Q and has the norm of Q×n
  have hbac : V3.cross (V3.cross Q n) Q = V3.sub n (V3.smul (V3.dot Q n) Q) := by
    have hx : Q.x * Q.x + Q.y * Q.y + Q.z * Q.z = 1 := by simpa [V3.dot] using hQ
    ext <;> simp only [V3.cross, V3.sub, V3.smul, V3.dot]
    · linear_combination (n.x) * hx
    · linear_combination (n.y) * hx
    · linear_combination (n.z) * hx
  have hl := C20.lagrange (V3.cross Q n) Q
  have hperp : V3.dot (V3.cross Q n) Q = 0 := C20.dot_cross_left_self Q n
  rw [hQ, hperp] at hl
  have hn2 := C07.norm_sq (V3.cross (V3.cross Q n) Q)
  have hn3 := C07.norm_sq (V3.cross Q n)
  have hnorm : V3.norm (V3.cross (V3.cross Q n) Q) = V3.norm (V3.cross Q n) := by
    have : V3.norm (V3.cross (V3.cross Q n) Q) * V3.norm (V3.cross (V3.cross Q n) Q) = V3.norm (V3.cross Q n) * V3.norm (V3.cross Q n) := by
      rw [hn2, hl, hn3]; ring
    nlinarith [V3.norm_nonneg (V3.cross (V3.cross Q n) Q), V3.norm_nonneg (V3.cross Q n), mul_pos p3 p3]
  have hne : V3.norm (V3.cross Q n) ≠ 0 := ne_of_gt p3
  unfold C07.triadMat
  have hu2 : V3.unit (V3.cross (V3.cross Q n) Q) = V3.smul (1 / V3.norm (V3.cross Q n)) (V3.sub n (V3.smul (V3.dot Q n) Q)) := by
    rw [V3.unit_eq_smul _ (by rw [hnorm]; exact p3), hnorm, hbac]
  rw [unit_of_norm_one Q hQ1, hu2]
  ext <;> simp only [M3.mulVec, M3.ofCols, V3.sub, V3.smul] <;> field_simp <;> ring

/-- the elevation of the laboratory reference direction of a solution of the orientation equation -/
theorem alpha_of_refSpec (Q n : V3 ℝ) (hQ : V3.dot Q Q = 1) (p3 : 0 < V3.norm (V3.cross Q n))
    (psi theta q mu eta chi phi : ℝ) (hS : RefSpec (Vref psi theta (C07.triadMat Q n)) (q, psi, mu, eta, chi, phi)) :
    (M3.mulVec (C04.Z mu eta chi phi) n).y =
      -(Real.sin theta * V3.dot Q n) + Real.cos theta * V3.norm (V3.cross Q n) * Real.cos psi := by
  unfold RefSpec Vref at hS
  simp only [gen_x_rotation, gen_z_rotation] at hS
  set N := C07.triadMat Q n with hNdef
  set Z := C04.Z mu eta chi phi with hZdef
  -- Z·N = F(q)·THETA·PSI
  have h1 : M3.mul Z N = M3.mul (M3.mul (Fq q) (rotZ (-theta))) (rotX psi) := by
    have := congrArg (fun m => M3.mul (M3.mul m (rotZ (-theta))) (rotX psi)) hS
    rw [← this]
    simp only [M3.mul_assoc']
    rw [← M3.mul_assoc' (M3.transpose (rotZ (-theta))) (rotZ (-theta)) (rotX psi), (isRot_rotZ (-theta)).1, M3.id_mul,
      (isRot_rotX psi).1, M3.mul_id]
  have hdec := triad_decomposition Q n hQ p3
  conv_lhs => rw [hdec, ← M3.mulVec_mul, ← hNdef, h1]
  simp only [M3.mulVec, M3.mul, Fq, rotZ, rotX, rs_cos, rs_sin, rs_one, rs_zero, Real.cos_neg, Real.sin_neg]
  ring

/-- **the psi values `__calc_psi` yields (qaz / naz not supplied) contain every psi with the right cosine** -/
theorem calcPsi_complete (alpha theta tau psi : ℝ)
    (hst : Scalar.isSmall (Real.sin tau) = false) (hct : Scalar.isSmall (Real.cos theta) = false) (hsth : Scalar.isSmall (Real.sin theta) = false)
    (hrel : Real.sin alpha = Real.cos tau * Real.sin theta - Real.cos theta * Real.sin tau * Real.cos psi)
    (hgen : Scalar.isSmall (Real.arccos ((Real.cos tau * Real.sin theta - Real.sin alpha) / Real.cos theta / Real.sin tau)) = false) :
    ∃ psi0, some psi0 ∈ calcPsi alpha theta tau none ∧ SameAngle psi0 psi := by
  have h1 := not_small_ne_zero hst
  have h2 := not_small_ne_zero hct
  have hx : (Real.cos tau * Real.sin theta - Real.sin alpha) / Real.cos theta / Real.sin tau = Real.cos psi := by
    rw [hrel]; field_simp; ring
  have habs : |(Real.cos tau * Real.sin theta - Real.sin alpha) / Real.cos theta / Real.sin tau| ≤ 1 := by rw [hx]; exact Real.abs_cos_le_one _
  have hroots := acos_roots_complete psi (Real.cos psi) (Real.abs_cos_le_one _) rfl
  unfold calcPsi
  simp only [rs_sin, rs_cos, hst, hct, hsth, Bool.false_eq_true, if_false, bound_id habs, pyAcos_ok habs, hgen, rs_zero]
  rw [hx]
  rcases hroots with h | h
  · exact ⟨Real.arccos (Real.cos psi), by simp, sameAngle_symm h⟩
  · exact ⟨-Real.arccos (Real.cos psi), by simp, sameAngle_symm h⟩

theorem Vref_congr (psi psi' theta : ℝ) (N : M3 ℝ) (h : SameAngle psi psi') : Vref psi theta N = Vref psi' theta N := by
  unfold Vref
  simp only [gen_x_rotation, rotX, rs_cos, rs_sin, h.1, h.2]

/-- the angle `__calc_nphi_alpha_tau` hands on, exactly -/
theorem nphiAlphaTau_tau_eq (ub : UBIn ℝ) (ref : RefCon ℝ) (h : V3 ℝ) (theta : ℝ) (n : V3 ℝ) (alpha tau : ℝ)
    (hnat : nphiAlphaTau ub ref h theta = .ok (n, alpha, tau)) :
    tau = Real.arccos (V3.dot (V3.smul (1 / V3.norm h) h) (V3.smul (1 / V3.norm n) n)) := by
  have key : ∀ x y : V3 ℝ, ∀ t : ℝ, angleBetween x y = .ok t →
      Scalar.toRad t = Real.arccos (V3.dot (V3.smul (1 / V3.norm x) x) (V3.smul (1 / V3.norm y) y)) := by
    intro x y t ht
    have habs := C11.abs_cos_between x y
    unfold angleBetween at ht
    simp only [rs_one] at ht
    obtain ⟨a, ha, hp⟩ := bind_ok_inv ht
    obtain ⟨hav, _⟩ := boundAcos_ok habs ha
    simp only [pure, Except.pure, Except.ok.injEq] at hp
    rw [← hp, toRad_toDeg', hav]
  unfold nphiAlphaTau at hnat
  obtain ⟨t1, ht1, hnat⟩ := bind_ok_inv hnat
  obtain ⟨t2, ht2, hnat⟩ := bind_ok_inv hnat
  have c1 := key h ub.n_phi t1 ht1
  have c2 := key h ub.surf_nphi t2 ht2
  simp only [] at hnat
  repeat' split at hnat
  all_goals first
    | cases hnat
    | (obtain ⟨a, _, hp⟩ := bind_ok_inv hnat
       simp only [pure, Except.pure, Except.ok.injEq, Prod.mk.injEq] at hp
       obtain ⟨rfl, _, rfl⟩ := hp
       first | exact c1 | exact c2)

theorem smul_inv_norm_eq_unit (v : V3 ℝ) : V3.smul (1 / V3.norm v) v = V3.unit v := by
  ext <;> simp only [V3.smul, V3.unit] <;> ring

/-- **reference + two sample angles, end to end, without assuming anything about `__calc_psi`**: for the six reference constraints other
    than psi.  What remains assumed of the reference layer is that the alpha it derives from the constraint is the elevation of `P`'s laboratory
    reference direction (`hα`) — for an `alpha` constraint that is the constraint itself. -/
theorem refSamp2_complete' (ub : UBIn ℝ) (U : M3 ℝ) (hU : IsRot U) (hUB : ub.UB = M3.mul U ub.B) (hB : M3.det ub.B ≠ 0)
    (ref : RefCon ℝ) (hnotpsi : ∀ v, ref ≠ .psi v) (s : Samp2Ref ℝ) (hkl : V3 ℝ) (wl : ℝ) (hwl : 0 < wl)
    (hne : 0 < V3.norm (M3.mulVec ub.B hkl))
    (mu delta nu eta chi phi : ℝ)
    (hf : C04.fwd ub.UB mu delta nu eta chi phi wl = hkl)
    (hs : |Real.cos delta * Real.cos nu| < 1)
    (hcd : Scalar.isSmall (Real.cos delta) = false)
    (n : V3 ℝ) (alpha tau : ℝ)
    (hnat : nphiAlphaTau ub ref (M3.mulVec ub.UB hkl) (thetaOf delta nu) = .ok (n, alpha, tau))
    (hn : 0 < V3.norm n) (hx : (1e-7 : ℝ) < V3.norm (V3.cross (V3.unit (M3.mulVec ub.UB hkl)) (V3.unit n)))
    (psiP q0 : ℝ)
    (hS : ∀ N, calcN (M3.mulVec ub.UB hkl) n = .ok N → RefSpec (Vref psiP (thetaOf delta nu) N) (q0, psiP, mu, eta, chi, phi))
    (hα : Real.sin alpha = -(M3.mulVec (C04.Z mu eta chi phi) (V3.unit n)).y)
    (hst : Scalar.isSmall (Real.sin tau) = false) (hct : Scalar.isSmall (Real.cos (thetaOf delta nu)) = false)
    (hsth : Scalar.isSmall (Real.sin (thetaOf delta nu)) = false)
    (hgen : Scalar.isSmall (Real.arccos ((Real.cos tau * Real.sin (thetaOf delta nu) - Real.sin alpha) / Real.cos (thetaOf delta nu) / Real.sin tau)) = false)
    (hc : CarriesRef s mu eta chi phi)
    (hr : ∀ N psi', calcN (M3.mulVec ub.UB hkl) n = .ok N → SameAngle psi' psiP → Samp2RefRegular s psi' (thetaOf delta nu) N q0 mu eta chi phi)
    (hsib : ∀ p, some p ∈ psiList ref alpha (thetaOf delta nu) tau → ∃ l, twoSampleAndReference s (M3.mulVec ub.UB hkl) n (thetaOf delta nu) p = .ok l) :
    ∃ l, candidates ub (.refSamp2 ref s) hkl wl = .ok l ∧ ∃ sol ∈ l, SamePosition sol mu delta nu eta chi phi := by
  have hnUBpos : 0 < V3.norm (M3.mulVec ub.UB hkl) := by rw [hUB, norm_UB U ub.B hU hkl]; exact hne
  set h := M3.mulVec ub.UB hkl with hhdef
  obtain ⟨N, hN⟩ := C11.calcN_total h n
  have hNtri := calcN_triadMat h n N hnUBpos hn hx hN
  set Q := V3.unit h with hQdef
  set nn := V3.unit n with hnndef
  have hQ1 : V3.norm Q = 1 := V3.norm_unit h hnUBpos
  have hn1 : V3.norm nn = 1 := V3.norm_unit n hn
  have hQd := C20.dot_self_of_norm_one Q hQ1
  have hnd := C20.dot_self_of_norm_one nn hn1
  have p3 : 0 < V3.norm (V3.cross Q nn) := lt_trans (by norm_num) hx
  -- tau
  have htau := nphiAlphaTau_tau_eq ub ref h _ n alpha tau hnat
  rw [smul_inv_norm_eq_unit, smul_inv_norm_eq_unit, ← hQdef, ← hnndef] at htau
  have hdabs : |V3.dot Q nn| ≤ 1 := by
    have := C11.abs_cos_between h n
    rwa [smul_inv_norm_eq_unit, smul_inv_norm_eq_unit] at this
  have hcost : Real.cos tau = V3.dot Q nn := by rw [htau, Real.cos_arccos (abs_le.mp hdabs).1 (abs_le.mp hdabs).2]
  have hsint : Real.sin tau = V3.norm (V3.cross Q nn) := by
    rw [htau, Real.sin_arccos]
    have hlag := C20.lagrange Q nn
    rw [hQd, hnd] at hlag
    have hnsq := C07.norm_sq (V3.cross Q nn)
    have : 1 - V3.dot Q nn ^ 2 = V3.norm (V3.cross Q nn) * V3.norm (V3.cross Q nn) := by rw [hnsq, hlag]; ring
    rw [this, Real.sqrt_mul_self (V3.norm_nonneg _)]
  -- P's alpha from the orientation equation
  have hSN := hS N hN
  rw [hNtri] at hSN
  have hy := alpha_of_refSpec Q nn hQd p3 psiP (thetaOf delta nu) q0 mu eta chi phi hSN
  have hrel : Real.sin alpha = Real.cos tau * Real.sin (thetaOf delta nu) - Real.cos (thetaOf delta nu) * Real.sin tau * Real.cos psiP := by
    rw [hα, hy, hcost, hsint]; ring
  obtain ⟨psi0, hmem, hsame⟩ := calcPsi_complete alpha (thetaOf delta nu) tau psiP hst hct hsth hrel hgen
  have hlist : some psi0 ∈ psiList ref alpha (thetaOf delta nu) tau := by
    unfold psiList
    cases ref with
    | psi v => exact absurd rfl (hnotpsi v)
    | _ => exact hmem
  apply refSamp2_complete ub U hU hUB hB ref s hkl wl hwl hne mu delta nu eta chi phi hf hs hcd n alpha tau hnat hn hx psi0 q0 hlist
  · intro N' hN'
    have := hS N' hN'
    unfold RefSpec at this ⊢
    rw [Vref_congr psi0 psiP _ N' hsame]
    exact this
  · exact hc
  · intro N' hN'; exact hr N' psi0 hN' hsame
  · exact hsib

end
end C03
