import Diffcalc.Model.DocModes
/-!
# C09 — a mode is reported implemented exactly when the solver can run it

Model: `implemented`, `dispatch` (hand, `Diffcalc/Model/Modes.lean`), `documented` (generated from the class
docstring).  The quantifier is the finite set of all 680 three-element subsets of the 17 names; every statement
is decided by the kernel (`decide +kernel`, no extra axioms).  The tie to the code is exhaustive: the check runs
all 680 triples through the real `Constraints` / `get_position` and compares accepted / implemented / route.
-/
namespace C09

open Name

/-- full statement over all triples -/
def C09_statement : Prop :=
  ∀ t ∈ triples, accepted t = true →
    (implemented t = true ↔ isSolver (dispatch t) = true) ∧
    (implemented t = false → dispatch t = .notImpl) ∧
    (implemented t = documented t)

theorem c09_all :
    (triples.all fun t => !accepted t ||
      ((implemented t == isSolver (dispatch t)) && (implemented t || dispatch t == .notImpl)
        && (implemented t == documented t))) = true := by
  decide +kernel

theorem c09_full : C09_statement := by
  intro t ht hacc
  have h := (List.all_eq_true.mp c09_all) t ht
  simp only [hacc, Bool.not_true, Bool.false_or, Bool.and_eq_true, beq_iff_eq, Bool.or_eq_true] at h
  obtain ⟨⟨h1, h2⟩, h3⟩ := h
  refine ⟨?_, ?_, h3⟩
  · rw [h1]
  · intro hf
    rcases h2 with h2 | h2
    · rw [hf] at h2; exact absurd h2 (by decide)
    · exact h2

/-- `sublists3 l` contains every three-element sublist of `l` (unbounded, by induction on `l`) -/
theorem mem_map_single {l : List Name} {y z : Name} (h : List.Sublist [z] l) :
    [y, z] ∈ l.map (fun z => [y, z]) :=
  List.mem_map.mpr ⟨z, h.subset (List.mem_singleton.mpr rfl), rfl⟩

theorem mem_pairs : ∀ {l : List Name} {y z : Name}, List.Sublist [y, z] l → [y, z] ∈ sublists3.pairs l
  | [], _, _, h => by cases h
  | a :: l, y, z, h => by
    unfold sublists3.pairs
    cases h with
    | cons _ h' => exact List.mem_append_right _ (mem_pairs h')
    | cons_cons _ h' => exact List.mem_append_left _ (mem_map_single h')

theorem mem_sublists3 : ∀ {l : List Name} {x y z : Name}, List.Sublist [x, y, z] l → [x, y, z] ∈ sublists3 l
  | [], _, _, _, h => by cases h
  | a :: l, x, y, z, h => by
    unfold sublists3
    cases h with
    | cons _ h' => exact List.mem_append_right _ (mem_sublists3 h')
    | cons_cons _ h' => exact List.mem_append_left _ (List.mem_map.mpr ⟨[y, z], mem_pairs h', rfl⟩)

/-- every fully constrained state of the constraint manager is one of the enumerated triples:
    the theorems over `triples` therefore speak about every reachable fully constrained state -/
theorem active_mem_triples {α : Type} (s : CState α) (h : s.count = 3) : s.activeNames ∈ triples := by
  have hl : s.activeNames.length = 3 := h
  have hxyz : ∃ x y z, s.activeNames = [x, y, z] := by
    match hm : s.activeNames, hl with
    | [x, y, z], _ => exact ⟨x, y, z, rfl⟩
  obtain ⟨x, y, z, hxyz⟩ := hxyz
  have hsub : List.Sublist s.activeNames Name.all := List.filter_sublist
  rw [hxyz] at hsub ⊢
  exact mem_sublists3 hsub

theorem triples_length : triples.length = 680 := by decide +kernel
theorem accepted_count : (triples.filter accepted).length = 353 := by decide +kernel
theorem implemented_count : (triples.filter fun t => accepted t && implemented t).length = 185 := by decide +kernel

/-- non-vacuity: concrete modes on both sides -/
example : [qaz, a_eq_b, mu] ∈ triples ∧ accepted [qaz, a_eq_b, mu] = true ∧ implemented [qaz, a_eq_b, mu] = true := by decide
example : [naz, mu, eta] ∈ triples ∧ accepted [naz, mu, eta] = true ∧ implemented [naz, mu, eta] = false := by decide

end C09
