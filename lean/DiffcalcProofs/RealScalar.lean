import Diffcalc.Scalar
import Mathlib.Analysis.SpecialFunctions.Trigonometric.Inverse
import Mathlib.Analysis.SpecialFunctions.Trigonometric.Arctan
import Mathlib.Analysis.SpecialFunctions.Complex.Arg
import Mathlib.Analysis.SpecialFunctions.Sqrt
import Mathlib.Analysis.SpecialFunctions.Pow.Real
import Mathlib.Tactic.Ring
import Mathlib.Tactic.FieldSimp
import Mathlib.Tactic.Linarith
import Mathlib.Tactic.NormNum
import Mathlib.Tactic.Positivity
/-!
# The real-number reading of `Scalar`

`atan2 y x := Complex.arg (x + y i)`; comparisons through classical decidability.
Every theorem about numeric model definitions is stated at this instance.
-/
noncomputable section
open Classical

def atan2R (y x : ℝ) : ℝ := Complex.arg ⟨x, y⟩

/-- real cube root (odd extension of `x ^ (1/3)`) -/
def cbrtR (x : ℝ) : ℝ := if 0 ≤ x then x ^ ((1:ℝ) / 3) else -((-x) ^ ((1:ℝ) / 3))

theorem cbrtR_one : cbrtR 1 = 1 := by simp [cbrtR]

instance : Scalar ℝ where
  ofNat n := (n : ℝ)
  ofSci m s e := OfScientific.ofScientific m s e
  pi := Real.pi
  sqrt := Real.sqrt
  cbrt := cbrtR
  sin := Real.sin
  cos := Real.cos
  tan := Real.tan
  asin := Real.arcsin
  acos := Real.arccos
  atan := Real.arctan
  atan2 := atan2R
  abs := fun x => |x|
  lt a b := decide (a < b)
  le a b := decide (a ≤ b)
  beq a b := decide (a = b)

theorem cos_atan2R {x y : ℝ} (h : x ≠ 0 ∨ y ≠ 0) :
    Real.cos (atan2R y x) = x / Real.sqrt (x^2 + y^2) := by
  unfold atan2R
  have hz : (⟨x, y⟩ : ℂ) ≠ 0 := by
    intro h0
    have h1 := congrArg Complex.re h0
    have h2 := congrArg Complex.im h0
    simp at h1 h2
    rcases h with h | h <;> contradiction
  rw [Complex.cos_arg hz]
  simp [Complex.norm_def, Complex.normSq_apply, pow_two]

theorem sin_atan2R (x y : ℝ) :
    Real.sin (atan2R y x) = y / Real.sqrt (x^2 + y^2) := by
  unfold atan2R
  rw [Complex.sin_arg]
  simp [Complex.norm_def, Complex.normSq_apply, pow_two]

@[simp] theorem scalar_toDeg_toRad (x : ℝ) : Scalar.toDeg (Scalar.toRad x) = x := by
  simp only [Scalar.toDeg, Scalar.toRad, Scalar.pi, Scalar.ofNat]
  have := Real.pi_ne_zero
  field_simp

@[simp] theorem scalar_toRad_toDeg (x : ℝ) : Scalar.toRad (Scalar.toDeg x) = x := by
  simp only [Scalar.toDeg, Scalar.toRad, Scalar.pi, Scalar.ofNat]
  have := Real.pi_ne_zero
  field_simp
end
