import DiffcalcProofs.Props.C09
import DiffcalcProofs.Props.C10
import DiffcalcProofs.Props.C18
import DiffcalcProofs.Props.C16
import DiffcalcProofs.Props.C08
import DiffcalcProofs.Props.C08Miscut
