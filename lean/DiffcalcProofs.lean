import DiffcalcProofs.Props.C09
