import Diffcalc.Scalar
import Diffcalc.Drive.Wire
import Diffcalc.Model.Cons
import Diffcalc.Model.Modes
import Diffcalc.Gen.DocTable
import Diffcalc.Model.DocModes
